"""C19 — tabular export and import are faithful round trips."""
import inspect, json, random, struct, time, warnings, zlib

import numpy as np
import pandas as pd

import framework
import fsic
from fsic.parser import Symbol, Type
from fsic.core.containers import VectorContainer

ID = 'C19'
LEAN_MODULE = 'Proofs.C19'
THEOREMS = ['Fsic.C19.' + n for n in [
    'modelTable_cols', 'dataframe_columns', 'dataframe_columns_nodup', 'dataframe_columns_needs_guard',
    'dataframe_rows', 'dataframe_cells', 'dataframe_status', 'dataframe_internal_iff', 'container_columns',
    'dataColumns_modelTable', 'storageKey_injective', 'storageKey_ne_self', 'export_reads_own_series',
    'attrLookup_differs_at_twin', 'attrLookup_eq_getItem', 'container_reads_own_series', 'toObj_getItem',
    'from_dataframe_reads_own_series', 'no_kwargsClash', 'from_dataframe_false_at_witness', 'linker_tables', 'linker_tables_lookup', 'linker_tables_count',
    'linker_tables_false_at_witness', 'from_dataframe_roundtrip', 'from_dataframe_roundtrip_id',
    'symbols_roundtrip_of_decoderOk', 'decoderOk_of_symbols_roundtrip', 'symbols_roundtrip_iff_decoderOk',
    'installed_coercion_observed', 'codeDecoder_ok_of_markers', 'codeDecoder_ok', 'symbols_roundtrip',
    'symbols_roundtrip_iff_validTypes', 'codeDecoder_preserves_strings', 'present_strings_roundtrip',
    'symbols_roundtrip_strings', 'toPy_injective', 'normalising_decoder_breaks_roundtrip',
    'export_depends_on_truthiness_only', 'export_eq_export_of_bool', 'export_args_depend_on_value_only', 'export_labels_any_form',
    'linker_export_depends_on_truthiness_only', 'identity_test_breaks_export', 'from_dataframe_strict_truthiness',
    'from_dataframe_strict_falsy', 'from_dataframe_strict_data_columns', 'wrapChain_forwards', 'mixins_do_not_change_export',
    'mixin_order_irrelevant', 'alias_export_renames_labels_only', 'internal_flag_matters_iff',
    'wrapper_dropping_internal_differs_iff', 'wrapChain_dropping_internal_differs_iff']]
RULE = ('random model scripts (1-5 equations; lags/leads, {parameters}, <errors>, exp/log/max/min/abs/np.sqrt, '
        'conditional expressions with keywords, fenced verbatim blocks, multi-line statements) built with '
        'parse_model + build_model; instances over span types range / list of str / list of int / mixed hashables / '
        'NumPy int and str arrays / pandas Index / PeriodIndex (annual, quarterly) / DatetimeIndex, lengths 0-7, '
        'random float initial values (incl. NaN, inf, -0.0), extra variables added with add_variable of dtype '
        'int/int32/uint8/bool/str/float/float32 with plain and underscore-prefixed names, solved (solve with '
        'failures/errors ignored) and unsolved, status/iterations also edited in place; every instance exported with '
        'all 8 (status, iterations, include_internal) combinations through BaseModel.to_dataframe and '
        'fsic.tools.model_to_dataframe, through VectorContainer.to_dataframe, re-imported with from_dataframe (also '
        'from tables with dropped / extra / integer / boolean columns and a custom default_value); linkers of 0-3 '
        'such submodels with own variables, names of type str/int (incl. a name equal to a submodel key), all flag '
        'combinations; symbol lists = parser output of every generated script and of a fixed catalogue (verbatim '
        'only, functions, keywords, single symbol, ...): oracle + three-way comparison real output == model output '
        '== original list; plus contiguous sub-lists / reversals of those (three-way comparison only: not parser '
        'output, covered by the theorem). '
        'Edge whitespace: scripts whose fenced blocks have trailing blanks / tabs, whitespace-only first / last lines, '
        'whitespace-only or empty bodies, CR/LF line ends, opening fences with trailing blanks, and equations with '
        'trailing blanks (kept only as edge cases when the PARSER OUTPUT really carries \'\' or leading / trailing '
        'whitespace in a str field: counted under symbols-edge:parser:*), plus hand-built Symbol lists = every string '
        'of a 23-string alphabet (x, " x", "x ", tab/newline/CR variants, " ", "", "a b", "nan", NUL, NBSP ...) in each of '
        'name / equation / code of a verbatim / endogenous / function symbol, alone, next to None rows (mixed column, '
        'both orders), next to another str, duplicated, with the other str fields None (all-missing columns), all '
        'ordered pairs of a 9-string alphabet per column, and random lists over the alphabet (oracle + three-way '
        'comparison; the oracle compares every str field character by character and by type, so \'\' vs None and '
        '"x " vs "x" are told apart: keys symbols-roundtrip-str-altered / -str-lost / -tuple-neq). str-valued model '
        'variables with edge-whitespace cells, variable names (column labels) and span labels (list / NumPy / pandas '
        'Index) with edge whitespace or \'\' go through the same table oracles. '
        'NAME-DEPENDENT ACCESS PATHS: the ground truth of every oracle (and the input of the Lean model) is the array in '
        'the object\'s storage, __dict__[\'_\' + name], never obj[name] / getattr; every exported column is compared with it '
        'cell by cell (floats by IEEE bits), byte-wise and by dtype, and a mismatch is classified (df-/container-'
        'column-not-a-series, -column-holds-other-series, -values, -dtype, -export-raises; from-dataframe-holds-other-series, '
        '-not-a-series). Name pools: UNDERSCORE TWINS (x, _x, __x, _x_ variables of one object, either order) and MEMBER-LIKE '
        'names = dir(BaseModel) + dir(BaseLinker) + dir(VectorContainer) + instance attributes (_attributes) + __dict__ keys '
        '(and the names whose storage key they are) + constructor / from_dataframe parameters + a static list (properties '
        'size/nbytes/values/strict/LAGS, methods copy/eval/solve/to_dataframe/..., class attributes NAMES/CODE/..., dunders). '
        'EXHAUSTIVE (seed-independent): every pool name x host in {declared by a hand-written BaseModel subclass, added with '
        'add_variable, parser-built script, plain VectorContainer, declared / run-time core variable of a linker whose '
        'submodel carries the same name}, built only where the code accepts the name (refusals counted per host and kind: '
        'refused:<host>:<kind>), each also next to its own twins; RANDOM: instances mixing 2-4 members of a twin group, 0-3 '
        'accepted member-like names and ordinary names in random order on all hosts, linkers with such submodels and core '
        'variables; 40% of the main population gets twin / member-like run-time variables too. In all of these EVERY SERIES '
        'IS UNIQUE (base = hash of the name + position; counted: series-all-unique), so a column holding another '
        'variable\'s series cannot pass. '
        'EXTENSION MIXINS x ENTRY POINTS x THE FORM OF THE FLAGS (own workers): every model recipe (always with an underscore-prefixed '
        'variable, declared or run-time; ALIASES incl. aliases of underscore-prefixed variables, chained and dangling, '
        'PREFERRED_NAMES) is built once per class kind {plain, AliasMixin, TracerMixin (solved with trace=True), '
        'PandasIndexFeaturesMixin, ProgressBarMixin, all four with AliasMixin outermost, all four with AliasMixin innermost} '
        '(kinds whose mixin cannot be imported are left out and counted) and exported through obj.to_dataframe(...) and '
        'fsic.tools.model_to_dataframe(obj, ...) with flag triples = the 8 plain-bool combinations + every form in {np.True_, '
        'np.False_, 1, 0, 1.0, 0.0, \'x\', \'\', None, keyword omitted; thorough also 2, -1, np.int64, np.float64, -0.0, NaN, '
        '\'False\', \'0\', \' \', np.int8, np.float32} in every flag position next to plain-bool others + all three flags in one form '
        'family (np.bool_ / int / float / str, every truth combination), all None, all omitted + random mixed triples; alias '
        'kinds also with use_aliases= in 11 forms.  Every table is compared (index, labels incl. their type, cells by bits, '
        'dtypes) with (1) the storage-level ground truth, (2) the table of the PLAIN class of the same recipe through the same '
        'entry point with the same flags (df-mixin-export-differs:<class>:<entry>; with truthy use_aliases only the labels may '
        'differ and each must be the name or one of its aliases), (3) the table of the same object with bool(flag) for every flag '
        '(df-flag-form:<form>:<flag>, the flag found by single substitution), and (4) the Lean model (classExport over the '
        'MRO, truthy of each form, reflected defaults for omitted keywords).  Linkers of 1-3 such submodels in variants (linker '
        'kind in {plain, AliasMixin}, submodel kinds: all of one kind for every kind, alias linker over alias / plain submodels, '
        'random mixtures) through linker.to_dataframes, fsic.tools.linker_to_dataframes, linker.to_dataframe and '
        'fsic.tools.model_to_dataframe(linker), same three references (the all-plain variant as class reference; the differing '
        'table names the class: linker:<kind> / submodel:<kind>).  from_dataframe(table, strict=<form>) on the table of the class '
        'variables and on one with a foreign column: outcome (raise or span + stored series + bool(strict)) must be the one for '
        'bool(strict) (fd-flag-form:<form>:strict), the first must reproduce span and values in every form.  Counted per '
        'class kind x entry point x form (mixin|<class>|<entry>|<form>), per flag x form x truth value (flag-form:*). '
        'distinct = distinct (instance recipe, entry point, flags) resp. distinct symbol list; non-trivial = at least '
        'one variable and one period resp. a non-empty list')
TRUSTED = ['pandas (DataFrame construction from a dict of arrays / a list of dicts, Index construction from the span, '
           'dtype inference, None->NaN coercion, column assignment, iterrows, DataFrame.items) is OUTSIDE the Lean '
           'model and only observed: its missing-value coercion enters the theorems through the reflected table '
           'Fsic.Generated.pandasCoercion (harness/reflect_tools.py), dtype preservation is checked on the real '
           'DataFrame by the oracle only; string identity of present cells (incl. \'\' and strings with edge whitespace) '
           'is probed on the installed pandas by harness/reflect_tools.py (str_*_full/_mixed/_alone = "same") and enters '
           'installed_coercion_observed through presentAsModelled',
           'NumPy astype(float) on int/bool cells equals Lean Float.ofInt (driver instance of the cast)',
           'cells and span labels cross to the Lean driver as opaque tokens (floats as IEEE bit patterns)']
ASSUMPTIONS = ['variable names are distinct and none is called status/iterations (the constructor and add_variable '
               'raise DuplicateNameError otherwise; checked on every generated instance)',
               'a series lives in the instance __dict__ under \'_\' + name (the ground truth of the oracles; if an entry is '
               'not there the oracle falls back to obj[name] and counts ground-truth-fallback)',
               'from_dataframe round trip: no variable is called like a positional parameter of __init__ (self, span; '
               'reflected): `self` is accepted as a variable name and then from_dataframe raises TypeError (open finding '
               'from-dataframe-self-column-typeerror, theorem from_dataframe_false_at_witness); a column labelled '
               'default_value binds the parameter (modelled)',
               'span labels survive pandas Index construction unchanged (no None/NaN labels, no int/float mixtures): '
               'such spans are probed by the oracle only',
               'from_dataframe round trip is stated for float models (the constructor casts to the model dtype) and '
               'for the variables of the class (NAMES); variables added at run time are not part of the class',
               'symbol `type` values are members of the Type enum (the typing of Symbol.type; '
               'symbols_roundtrip_iff_validTypes shows it is exactly what the round trip needs)',
               'a str / non-numeric object in a lags/leads CELL is outside the model (int(field) on it is modelled as '
               'a raise); symbols_to_dataframe never produces such a cell and nothing compared depends on it',
               'the extension mixins are compared with the plain class of the same recipe; an ALIASES map whose KEY is the name of a '
               'variable of the class is outside (open finding df-alias-shadows-variable: the column of that name holds the target\'s '
               'series); what an OMITTED status / iterations keyword means is not in the property (the oracle does not check their '
               'presence then; the model uses the reflected defaults of model_to_dataframe; omitted include_internal = not requested)',
               'position of the status/iterations columns and the order of the linker dict are not compared '
               '(the property is silent); the Lean theorems state what the code does (appended last, linker first)']

META = {
    "text": "Theorems for every store (any variables, span, cell type), flag combination, linker and symbol list: exported columns = model-order names (underscore-prefixed iff requested) ++ status? ++ iterations?, no duplicates, index = span, one cell per period, each column holds exactly its series; container export = index order; linker export = one table per submodel plus the linker's, keyed correctly (guard: linker name not a submodel key; count theorem without the guard); NAME vs STORAGE KEY made explicit (Obj = the instance __dict__, storageKey name = '_' ++ name, getItem = obj[name]): storageKey_injective, export_reads_own_series (for EVERY name list, underscore twins and member-like names included, the column of k is the __dict__ entry under storageKey k and, when the entries are pairwise different, of no other key: not the entry under k itself, not another variable's), container_reads_own_series, toObj_getItem (the __dict__ a constructor builds gives every name its own entry), from_dataframe_reads_own_series (round trip down to __dict__), attrLookup_differs_at_twin (Python's getattr would return Y's series for _Y; equal to obj[k] off __dict__ keys); from_dataframe on any export reproduces span and the cast of every class variable (identity for float models); symbols_roundtrip: for EVERY symbol list, with the reflected coercion of the installed pandas, the code's decoder (is_missing = None or float NaN -> None in name/lags/leads/equation/code, int(field) otherwise for lags/leads) returns the original list (iff every type is a Type member); in general the round trip holds for every list IFF the decoder maps the coercion's missing markers back to None in every optional field, which the code's decoder does for any coercion whose markers are None/NaN. String identity: codeDecoder_preserves_strings (for EVERY string s a present str cell decodes to s itself in name/equation/code: is_missing never fires on a str, '' and whitespace-only included), present_strings_roundtrip (under ANY coercion, whenever the round trip returns, it returns one symbol per input symbol and every present str field unchanged), symbols_roundtrip_strings (installed pandas: it does return), toPy_injective ('' and None, 'x ' and 'x' are different values of the model, so equality with the original list is field-exact), normalising_decoder_breaks_roundtrip (a decoder that alters even one string in one str field fails on a one-symbol list). FORM OF THE FLAGS: FlagForm (bool / np.bool_ / int / float by IEEE bits / str / None) with truthy = Python's bool(); export_depends_on_truthiness_only (two flag triples of any forms with equal truthiness give the same table), export_eq_export_of_bool, export_args_depend_on_value_only + linker_export_depends_on_truthiness_only (omitted keywords = reflected defaults; linker's own and every submodel's table), export_labels_any_form (labels are the names and the STRINGS status / iterations), identity_test_breaks_export (an export testing `flag is True` and taking another truthy flag for a label differs on EVERY store for every truthy non-True status flag), from_dataframe_strict_truthiness / _falsy / _data_columns. EXTENSION MIXINS: there is no class in the model - modelExport is a function of (names, series, span, flags); a mixin's to_dataframe is a Wrapper (what it hands to super(), what it does to the table); wrapChain_forwards + mixins_do_not_change_export (for every list of mixins in every MRO order the class's export IS model_to_dataframe's, underscore-prefixed variables included when requested), mixin_order_irrelevant, alias_export_renames_labels_only (use_aliases: index and cells unchanged), internal_flag_matters_iff and wrapper_dropping_internal_differs_iff / wrapChain_dropping_internal_differs_iff (a wrapper that does not pass include_internal on differs from the export for some flags IF AND ONLY IF the store has an underscore-prefixed variable, also below any forwarding wrappers). Tied to fsic/tools.py, BaseModel.from_dataframe, VectorContainer.to_dataframe by exact comparison of tables (cells as IEEE bits) on generated models/linkers/symbol lists; symbol round trips compared three ways (real output == model output == original list), including parser outputs and hand-built lists whose str fields are '' or carry leading/trailing/only whitespace (strings cross to the driver JSON-escaped and come back exactly).",
    "design_ref": "DESIGN.md §5 M8, §6 C19, §7 row 15",
    "note": "Partial: pandas is outside the model (DataFrame/Index construction, dtype inference, None->NaN coercion, iterrows) - observed through the reflected table and by the oracle (dtype preservation). The two symbols round-trip findings (NaN for a missing name/equation/code; TypeError when every lags/leads entry is None) are fixed by fsic 56f842e: their oracle keys remain and a regression under them is a VIOLATION. Open known findings on the unchanged tree: an ALIASES key that is the name of a variable of the class makes the export show the target's series in that column (df-alias-shadows-variable); a None span label is exported as NaN (df-index-none-label-nan); a model with a variable called `self` cannot be re-imported (from-dataframe-self-column-typeerror: from_dataframe_roundtrip carries the guard CtorNamesOk, from_dataframe_false_at_witness proves the unguarded statement false). Trusted: Lean kernel, standard axioms, the correspondence harness.",
    "technique": "Lean 4 proof (induction over insertion-ordered dicts and symbol lists, decide on reflected tables) + differential correspondence check + property oracle on the real DataFrames"
}

FLAGS = [(s, i, n) for s in (False, True) for i in (False, True) for n in (False, True)]
KNOWN_STR_NAN = 'symbols-roundtrip-missing-str-nan'
KNOWN_INT_RAISES = 'symbols-roundtrip-all-missing-int-typeerror'
KNOWN_NONE_LABEL = 'df-index-none-label-nan'
KNOWN_FD_SELF = 'from-dataframe-self-column-typeerror'


# ---- tokens ---------------------------------------------------------------------------------------------------

def bits(x):
    return struct.unpack('<Q', struct.pack('<d', float(x)))[0]


def tok(x):
    """Opaque token of a cell / label: type tag + exact value (floats by IEEE bits, never text)."""
    if isinstance(x, (bool, np.bool_)):
        return 'b:1' if x else 'b:0'
    if isinstance(x, (int, np.integer)):
        return f'i:{int(x)}'
    if isinstance(x, (float, np.floating)):
        return f'f:{bits(x)}'
    if isinstance(x, str):
        return 's:' + x
    if x is None:
        return 'none'
    return 'o:' + repr(x)


def toks(arr):
    return [tok(v) for v in (arr.tolist() if hasattr(arr, 'tolist') else list(arr))]


def table_canon(df):
    cols = []
    for j, c in enumerate(df.columns):
        cols.append([c if isinstance(c, str) else 'o:' + repr(c), toks(df.iloc[:, j])])
    return {'index': [tok(x) for x in df.index], 'cols': cols}


def split_special(table):
    """(index, ordered variable columns, {status/iterations: cells}).  The position of status/iterations is not
    compared (the property only says they are present when requested)."""
    var = [c for c in table['cols'] if c[0] not in ('status', 'iterations')]
    spec = {}
    for c in table['cols']:
        if c[0] in ('status', 'iterations'):
            spec.setdefault(c[0], []).append(c[1])
    return table['index'], var, spec


def truth(obj, name):
    """GROUND TRUTH of the series of variable `name`: the array held in the object's storage,
    `obj.__dict__['_' + name]` (what `add_variable` wrote) -- read without going through `obj[name]`, `getattr` or any
    other name-dependent access path of the code under test.  None if the storage layout is not the expected one."""
    v = vars(obj).get('_' + name) if isinstance(name, str) else None
    return v if isinstance(v, np.ndarray) and v.ndim == 1 else None


def series_of(obj, name, rep=None):
    """Ground truth, falling back to `obj[name]` only if the storage layout was refactored away (counted)."""
    v = truth(obj, name)
    if v is None:
        if rep is not None:
            rep.dist['ground-truth-fallback:obj[name]'] += 1
        v = obj[name]
    return v


def store_json(obj, named_only=False):
    """The instance as the Lean model receives it.  Normally AS IT IS IN MEMORY (`dict`: the 1-D arrays of
    `__dict__` under their storage keys, insertion order): the model then reads every series through `getItem`
    (`name in index`, `'_' + name`).  Only if some series is not where the layout says, by name (`data`)."""
    idx = list(vars(obj)['index'])
    out = {'span': [tok(x) for x in vars(obj)['span']], 'index': idx, 'names': list(vars(obj).get('names', []))}
    if named_only:
        # (TracerMixin keeps a series of Trace objects in `index` that is not a variable: its cells have no stable
        # token; the export never reads it)
        keep = set(out['names']) | {'status', 'iterations'}
        out['dict'] = [['_' + k, toks(truth(obj, k))] for k in idx if k in keep and truth(obj, k) is not None]
        return out
    if all(truth(obj, k) is not None for k in idx):
        out['dict'] = [[k, toks(v)] for k, v in vars(obj).items()
                       if isinstance(k, str) and k.startswith('_') and isinstance(v, np.ndarray) and v.ndim == 1]
    else:
        out['data'] = [[k, toks(obj[k])] for k in idx]
    return out


# ---- generators -----------------------------------------------------------------------------------------------

VAR_POOL = ['Y', 'C', 'I', 'G', 'X', 'Z', 'K', 'W', 'Cd', 'YD', 'H_2', 'is_open', 'not_X', 'Pin', 'exp1', 'T', 'r', 'N9']
PAR_POOL = ['alpha', 'b1', 'mu_x', 'k']
ERR_POOL = ['eps', 'u1']
VERBATIM = ['pass', 'z = 1', 'import math', 'q = [1, 2]\nq.append(3)']


def gen_term(rng, names, depth=0):
    r = rng.random()
    if r < 0.30:
        return rng.choice(names)
    if r < 0.45:
        return f'{rng.choice(names)}[-{rng.randint(1, 3)}]'
    if r < 0.52:
        return f'{rng.choice(names)}[{rng.choice(["", "+"])}{rng.randint(1, 2)}]'
    if r < 0.60:
        return '{' + rng.choice(PAR_POOL) + '}'
    if r < 0.64:
        return '<' + rng.choice(ERR_POOL) + '>'
    if r < 0.74:
        return rng.choice(['0.5', '2', '1.25', '0', '10', '1e-3'])
    if depth >= 2:
        return rng.choice(names)
    if r < 0.84:
        f = rng.choice(['exp', 'log', 'abs', 'np.sqrt'])
        return f'{f}({gen_expr(rng, names, depth + 1)})'
    if r < 0.90:
        return f'{rng.choice(["max", "min"])}({gen_expr(rng, names, depth + 1)}, {gen_term(rng, names, depth + 1)})'
    if r < 0.96:
        c = rng.choice(['>', '<', '>=', '=='])
        extra = rng.choice(['', '', f' and {gen_term(rng, names, 2)} > 0', f' or not {gen_term(rng, names, 2)}'])
        return f'({gen_term(rng, names, 2)} if {gen_term(rng, names, 2)} {c} {gen_term(rng, names, 2)}{extra} else {gen_term(rng, names, 2)})'
    return f'({gen_expr(rng, names, depth + 1)})'


def gen_expr(rng, names, depth=0):
    n = rng.choice([1, 1, 2, 2, 3])
    out = gen_term(rng, names, depth)
    for _ in range(n - 1):
        out += f' {rng.choice(["+", "-", "*", "/", "**"])} ' + gen_term(rng, names, depth)
    if rng.random() < 0.1:
        out = '-' + out
    return out


def gen_script(rng):
    names = rng.sample(VAR_POOL, rng.randint(2, 7))
    neq = rng.choice([0, 1, 1, 2, 2, 3, 4, 5])
    neq = min(neq, len(names))
    lhs = rng.sample(names, neq)
    lines = []
    for v in lhs:
        e = gen_expr(rng, names)
        if rng.random() < 0.1:
            e = f'({e} +\n    {gen_term(rng, names)})'
        line = f'{v} = {e}'
        if rng.random() < 0.1:
            line += '  # note'
        lines.append(line)
    nv = rng.choice([0, 0, 0, 1, 1, 2]) if neq else rng.choice([1, 2])
    for _ in range(nv):
        lines.insert(rng.randint(0, len(lines)), '```\n' + rng.choice(VERBATIM) + '\n```')
    return '\n'.join(lines)


CATALOGUE = [
    'Y = C + I', 'Y = C', 'Y = 2 * Y[-1]', 'Y = 1', '```\npass\n```', '```\nz = 1\n```\n```\nimport math\n```',
    'Y = exp(X)', 'Y = max(X, 0) if Z else 2', 'Y = X\n```\nz = 1\n```\nW = Y[-1] * 2', 'Y = {a} * X[-1] + <e>',
    'Y = exp(Y[-1])', 'Y = np.sqrt(abs(Y[1]))', 'Y = Y[-1] + 1\nZ = Z[1] * 2', '',
    'A = B\nB = C\nC = D\nD = A[-1]', 'Y = (1 if not X else 0)',
]

SPAN_KINDS = ['range', 'liststr', 'listint', 'mixed', 'npint', 'npstr', 'pdint', 'pdstr', 'periodA', 'periodQ',
              'datetime', 'wsstr', 'npwsstr', 'pdwsstr']


def make_span(kind, n, o):
    if kind == 'range':
        return range(o, o + n)
    if kind == 'liststr':
        return [f'p{o + i}' for i in range(n)]
    if kind == 'listint':
        return [1990 + o + 2 * i for i in range(n)]
    if kind == 'mixed':
        base = ['a', 7, ('q', 1), 'b2', -3, (2, 3), 'zz', 100]
        return [base[(o + i) % len(base)] if i < len(base) else f'm{i}' for i in range(n)]
    if kind == 'npint':
        return np.arange(o, o + n)
    if kind == 'npstr':
        return np.array([f's{o + i}' for i in range(n)], dtype=str)
    if kind == 'pdint':
        return pd.Index([10 * (o + i) for i in range(n)])
    if kind == 'pdstr':
        return pd.Index([f'x{o + i}' for i in range(n)])
    if kind == 'periodA':
        return pd.period_range(start=str(1990 + o), periods=n, freq='Y')
    if kind == 'periodQ':
        return pd.period_range(start=f'{2000 + o}Q1', periods=n, freq='Q')
    if kind == 'datetime':
        return pd.date_range(start=f'20{10 + o:02d}-01-01', periods=n, freq='D')
    if kind in ('wsstr', 'npwsstr', 'pdwsstr'):
        labels = [WS_LABELS[(o + i) % len(WS_LABELS)] for i in range(n)]
        return labels if kind == 'wsstr' else np.array(labels, dtype=str) if kind == 'npwsstr' else pd.Index(labels)
    raise ValueError(kind)


FLOATS = [0.0, 1.0, -2.5, 3.25, 100.0, 1e-9, -0.0, float('nan'), float('inf'), float('-inf'), 0.1, 7.0]
DTYPES = {'int': int, 'bool': bool, 'str': str, 'float': float, 'int32': np.int32, 'uint8': np.uint8,
          'float32': np.float32}
EXTRA_NAMES = ['_hid', '_', '__p', '_X1', 'Nn', 'Bb', 'Ss', 'Ff', 'q_', 'U_1', '_9']
STRS = ['x', '', 'nan', 'zz top', 'é', '-', 'None', 'A_b']
# str cells with edge whitespace (values must come back exactly: no stripping anywhere on the way to the table)
WS_STRS = [' x', 'x ', '\tx', 'x\t', 'x\n', '\nx', ' ', '\n', '\t', ' x ', 'x\r\n', ' \n\t ', 'x  ', 'a b ']
# variable names (= column labels) with edge whitespace; ' _h' does not start with '_' (not internal), '_ h' does
WS_NAMES = [' x', 'x ', '\tq', 'q\n', ' ', '', ' _h', '_ h', 'a b', ' x ']
# span labels (= index labels) with edge whitespace
WS_LABELS = [' a', 'a ', '\tb', 'b\n', ' ', '', 'a b', '\n', ' \t ', 'c\r\n', ' a ']


def has_edge_ws(x):
    return isinstance(x, str) and (x == '' or x != x.strip())


# ---- name pools: names whose ACCESS PATH may differ from an ordinary name's ----------------------------------------
# (1) underscore twins: `Y` is stored under `_Y`, so a variable CALLED `_Y` (stored under `__Y`) has the name of
#     another variable's storage entry; (2) names of members of the classes / instance attributes / `__dict__` keys /
#     constructor parameters: `getattr(obj, name)` finds the member, `obj[name]` must find the series.
TWIN_BASES = ['Y', 'X', 'C', 'K', 'T', 'Cd', 'H_2', 'size', 'copy', 'values']
STATIC_MEMBER_NAMES = [
    'size', 'nbytes', 'values', 'strict', 'sizes', 'LAGS', 'LEADS', 'CODE', 'NAMES', 'ENDOGENOUS', 'EXOGENOUS',
    'PARAMETERS', 'ERRORS', 'CHECK', 'copy', 'eval', 'exec', 'reindex', 'solve', 'solve_t', 'solve_period', 'solve_t_before',
    'solve_t_after', 'evaluate_t', 'iter_periods', 'to_dataframe', 'to_dataframes', 'from_dataframe', 'add_variable',
    'add_attribute', 'replace_values', 'get_closest_match', 'span', 'index', 'names', 'dtype', 'lags', 'leads',
    'endogenous', 'check', 'engine', 'status', 'iterations', 'submodels', 'name', 'attributes', '_attributes', '_strict',
    '_evaluate', '_LAGS', '_LEADS', '__dict__', '__class__', '__len__', '__getitem__', '__getattr__', '__setattr__',
    '__init__', '__doc__', '__module__', '__contains__', '__dir__', '__copy__', 'self', 'cls', 'data', 'default_value',
    'initial_values', 'args', 'kwargs']
NAME_HOSTS = ['class', 'runtime', 'parser', 'container', 'linker-class', 'linker-runtime']
_POOL = {}


def _fresh_objects():
    return [fsic.BaseModel(range(2)), fsic.BaseLinker({'A': fsic.BaseModel(range(2))}), VectorContainer(range(2))]


def member_pool():
    """Every name to try as a variable name: `dir()` of the three classes, the instance attributes (`_attributes`)
    and `__dict__` keys of fresh instances (also without their leading underscore: the name whose storage key
    they are), the parameters of the constructors / `from_dataframe`, and a static list (so that a member that
    disappears from the code stays in the pool)."""
    if 'names' not in _POOL:
        names = set(STATIC_MEMBER_NAMES)
        for cls in (fsic.BaseModel, fsic.BaseLinker, VectorContainer):
            names |= set(dir(cls))
            for fn in ('__init__', 'from_dataframe', 'to_dataframe', 'add_variable'):
                try:
                    names |= set(inspect.signature(getattr(cls, fn)).parameters)
                except (AttributeError, TypeError, ValueError):
                    pass
        for o in _fresh_objects():
            keys = set(vars(o)) | set(vars(o).get('_attributes', []))
            names |= {k for k in keys if isinstance(k, str)} | {k[1:] for k in keys if isinstance(k, str) and k.startswith('_') and len(k) > 1}
        _POOL['names'] = sorted(names)
    return _POOL['names']


def name_kind(n):
    """Name-pool kind of a member-like name (first match)."""
    if 'kinds' not in _POOL:
        objs = _fresh_objects()
        _POOL['inst'] = set().union(*[set(vars(o).get('_attributes', [])) for o in objs])
        _POOL['keys'] = set().union(*[set(vars(o)) for o in objs])
        params = set()
        for cls in (fsic.BaseModel, fsic.BaseLinker):
            for fn in ('__init__', 'from_dataframe'):
                try:
                    params |= set(inspect.signature(getattr(cls, fn)).parameters)
                except (AttributeError, TypeError, ValueError):
                    pass
        _POOL['params'] = params | {'self', 'cls'}
        _POOL['kinds'] = {}
    if n in _POOL['kinds']:
        return _POOL['kinds'][n]
    kind = None
    if n.startswith('__') and n.endswith('__') and len(n) > 4:
        kind = 'dunder'
    else:
        for cls in (fsic.BaseModel, fsic.BaseLinker, VectorContainer):
            try:
                a = inspect.getattr_static(cls, n)
            except AttributeError:
                continue
            if isinstance(a, property):
                kind = 'property'
            elif isinstance(a, (staticmethod, classmethod)) or inspect.isroutine(a):
                kind = 'method'
            else:
                kind = 'class-attr'
            break
    if kind is None:
        kind = ('instance-attr' if n in _POOL['inst'] else 'dict-key' if n in _POOL['keys'] else
                'storage-key-of-dict-key' if '_' + n in _POOL['keys'] else 'ctor-parameter' if n in _POOL['params'] else 'plain')
    _POOL['kinds'][n] = kind
    return kind


def twin_group(b):
    return [b, '_' + b, '__' + b, '_' + b + '_']


def twin_kind(names):
    """True if the list holds a variable whose NAME is the storage key of another (`_Y` next to `Y`)."""
    ns = set(names)
    return any('_' + n in ns for n in ns)


def uniq_vals(name, j, n, dt):
    """A series no other variable of the object holds: base = hash of the name, made unique by the position `j` of
    the variable in the object, then one distinct cell per period."""
    b = (zlib.crc32(name.encode('utf-8', 'surrogatepass')) % 997) * 64 + (j % 64)
    if dt in ('int', 'int32'):
        return [b * 8 + p for p in range(n)]
    if dt == 'str':
        return [f'{name}|{j}|{p}' for p in range(n)]
    return [b + p / 8 + 0.125 for p in range(n)]       # float, float32 (exact in both)


RUNTIME_BASE = 'Y = 0.5 * X + 3'       # (solved, Y still differs from X)
UNIQ_DTYPES = ['float', 'float', 'int', 'int32', 'str', 'float32']
_HAND = {}


def hand_class(names):
    """A hand-written BaseModel subclass declaring `names` (first = endogenous): what a user writes without the
    parser, so ANY string can be a variable name.  `_evaluate` works on the storage directly."""
    key = tuple(names)
    if key not in _HAND:
        first, last = names[0], names[-1]

        class Hand(fsic.BaseModel):
            ENDOGENOUS = [first]
            EXOGENOUS = list(names[1:])
            NAMES = ENDOGENOUS + EXOGENOUS
            CHECK = ENDOGENOUS

            def _evaluate(self, t, **kwargs):
                d = vars(self)
                d['_' + first][t] = d['_' + last][t] * 0.5 + 3.0 if last != first else d['_' + first][t - 1] + 1.0
        _HAND[key] = Hand
    return _HAND[key]


def names_script(names):
    """A script whose variables are exactly `names` (when the parser takes them for variables)."""
    if len(names) == 1:
        return f'{names[0]} = {names[0]}[-1] + 1'
    rhs = [f'{names[1]}[-1]'] + list(names[2:])
    return f'{names[0]} = ' + ' + '.join(rhs)


def ctor_params():
    name_kind('x')
    return _POOL['params']


def gen_named_recipe(rng, host, names, n=None, solve=None, dts=None):
    """Recipe (same format as `gen_recipe`, so every case built from it replays through `build_instance`) of an
    instance whose variables are `names`, every series unique.  host 'class': hand-written subclass declaring them;
    'parser': parser-built from `names_script`; 'runtime': `Y = X` + add_variable of each; 'container': a plain
    VectorContainer + add_variable of each."""
    kind = rng.choice(['range', 'liststr', 'listint', 'mixed', 'pdstr', 'periodQ']) if n is None else 'range'
    n = rng.choice([1, 2, 3, 4, 5]) if n is None else n
    rec = {'span': [kind, n, rng.randint(0, 3)], 'init': {}, 'extras': [], 'solve': None, 'edits': [], 'poke': {},
           'host': host, 'uniq': True}
    if host in ('class', 'parser'):
        if host == 'class':
            rec['class_names'] = list(names)
        else:
            rec['script'] = names_script(names)
        for j, v in enumerate(names):
            vals = [bits(x) for x in uniq_vals(v, j, n, 'float')]
            # a name that is a parameter of __init__ cannot be passed as an initial value: written to storage
            (rec['poke'] if v in ctor_params() else rec['init'])[v] = vals
    else:
        if host == 'runtime':
            rec['script'] = RUNTIME_BASE
            rec['init'] = {'Y': [bits(x) for x in uniq_vals('Y', 60, n, 'float')], 'X': [bits(x) for x in uniq_vals('X', 61, n, 'float')]}
        else:
            rec['container'] = True
        for j, v in enumerate(names):
            dt = dts[j] if dts else rng.choice(UNIQ_DTYPES)
            rec['extras'].append([v, dt, {'scalar': False, 'vals': uniq_vals(v, j, n, dt)}])
    if solve is None:
        solve = host != 'container' and rng.random() < 0.4
    if solve:
        rec['solve'] = {'max_iter': rng.choice([1, 3]), 'errors': rng.choice(['ignore', 'skip'])}
    return rec


def gen_extra_values(rng, dt, n):
    if rng.random() < 0.25:
        scalar = True
        k = 1
    else:
        scalar = False
        k = n
    if dt in ('int', 'int32'):
        vals = [rng.choice([0, 1, -1, 7, 2 ** 20, -99, rng.randint(-1000, 1000)]) for _ in range(k)]
    elif dt == 'uint8':
        vals = [rng.randint(0, 255) for _ in range(k)]
    elif dt == 'bool':
        vals = [rng.random() < 0.5 for _ in range(k)]
    elif dt == 'str':
        pool = STRS + WS_STRS if rng.random() < 0.5 else STRS
        vals = [rng.choice(pool) for _ in range(k)]
    elif dt == 'float32':
        vals = [rng.choice([0.0, 1.5, -2.0, 0.25, 1024.0, float('nan')]) for _ in range(k)]
    else:
        vals = [rng.choice(FLOATS) for _ in range(k)]
    return {'scalar': scalar, 'vals': vals}


def gen_recipe(rng, script, names):
    kind = rng.choice(SPAN_KINDS)
    n = rng.choice([0, 1, 2, 3, 4, 5, 5, 6, 7])
    rec = {'script': script, 'span': [kind, n, rng.randint(0, 5)], 'init': {}, 'extras': [], 'solve': None, 'edits': []}
    for v in names:
        if rng.random() < 0.6:
            rec['init'][v] = [bits(rng.choice(FLOATS)) for _ in range(n)] if rng.random() < 0.7 else bits(rng.choice(FLOATS))
    pool = EXTRA_NAMES + WS_NAMES if rng.random() < 0.3 else EXTRA_NAMES
    for nm in rng.sample(pool, rng.choice([0, 1, 2, 3, 4, 5])):
        dt = rng.choice(list(DTYPES) + (['str'] * 3 if nm in WS_NAMES else []))
        rec['extras'].append([nm, dt, gen_extra_values(rng, dt, n)])
    if rng.random() < 0.55:
        rec['solve'] = {'max_iter': rng.choice([1, 3, 20]), 'errors': rng.choice(['ignore', 'skip', 'replace'])}
    if rng.random() < 0.4 and n:
        for _ in range(rng.randint(1, 3)):
            rec['edits'].append([rng.randrange(n), rng.choice('.FES-'), rng.choice([-1, 0, 1, 5, 100])])
    if rng.random() < 0.4:
        uniquify(rng, rec, names)
    return rec


def uniquify(rng, rec, names):
    """Name-dependent access paths inside the main population: every series of the instance unique (so that a column
    holding ANOTHER variable's series cannot pass), plus run-time variables that are underscore twins of the class's
    variables (`_Y` next to `Y`, `__Y`, `_Y_`) or named like members of the class."""
    n = rec['span'][1]
    rec['uniq'] = True
    for j, v in enumerate(names):
        if v not in ctor_params():
            rec['init'][v] = [bits(x) for x in uniq_vals(v, j, n, 'float')]
    taken = set(names) | {e[0] for e in rec['extras']}
    cand = []
    for v in rng.sample(list(names), min(len(names), 2)):
        cand += rng.sample(['_' + v, '__' + v, '_' + v + '_'], rng.choice([1, 1, 2]))
    cand += rng.sample(accepted('runtime'), rng.choice([0, 1, 2]))
    for nm in cand:
        if nm not in taken:
            taken.add(nm)
            rec['extras'].append([nm, rng.choice(UNIQ_DTYPES), None])
    for j, e in enumerate(rec['extras']):
        if e[1] in ('bool', 'uint8'):
            e[1] = 'int'
        e[2] = {'scalar': False, 'vals': uniq_vals(e[0], len(names) + j, n, e[1])}
    rng.shuffle(rec['extras'])


def unbits(b):
    return struct.unpack('<d', struct.pack('<Q', int(b)))[0]


_CLASS_CACHE = {}


def model_class(script):
    if script not in _CLASS_CACHE:
        _CLASS_CACHE[script] = fsic.build_model(fsic.parse_model(script))
    return _CLASS_CACHE[script]


def apply_extras(obj, extras):
    for nm, dt, spec in extras:
        v = spec['vals'][0] if spec['scalar'] else list(spec['vals'])
        obj.add_variable(nm, v, dtype=DTYPES[dt])


def build_instance(rec):
    """(class | None, instance) of a recipe: parser-built class (`script`), hand-written class (`class_names`) or a
    plain VectorContainer (`container`)."""
    kind, n, o = rec['span']
    if rec.get('container'):
        c = VectorContainer(make_span(kind, n, o))
        apply_extras(c, rec['extras'])
        return None, c
    M = hand_class(rec['class_names']) if 'class_names' in rec else model_class(rec['script'])
    if rec.get('mixin', 'plain') != 'plain':
        M = mixin_class(M, rec['mixin'], rec.get('aliases', []), rec.get('preferred', []))
    init = {k: (unbits(v) if not isinstance(v, list) else [unbits(b) for b in v]) for k, v in rec['init'].items()}
    m = M(make_span(kind, n, o), **init)
    for k, v in rec.get('poke', {}).items():
        vars(m)['_' + k][:] = [unbits(b) for b in v]
    apply_extras(m, rec['extras'])
    if rec['solve']:
        with warnings.catch_warnings(), np.errstate(all='ignore'):
            warnings.simplefilter('ignore')
            extra = {'trace': True} if rec['solve'].get('trace') and 'tracer' in mro_of(rec.get('mixin', 'plain')) else {}
            try:
                m.solve(max_iter=rec['solve']['max_iter'], failures='ignore', errors=rec['solve']['errors'], **extra)
            except Exception:  # noqa: BLE001  (a model that cannot be solved is still exported)
                pass
    for p, st, it in rec['edits']:
        m.status[p] = st
        m.iterations[p] = it
    return M, m


_ACCEPTED = {}


def try_named(host, names, n=2):
    """Build an instance whose variables are `names` on `host`; (recipe-or-linker-recipe, object) or raises."""
    rng = random.Random('probe')
    if host in ('linker-class', 'linker-runtime'):
        # the submodel carries the same names (added at run time) where a model accepts them
        sub = list(names) if all(x in accepted('runtime') or x.startswith('_') for x in names) else ['Q']
        lrec = gen_named_linker_recipe(rng, names if host == 'linker-class' else [], [] if host == 'linker-class' else names,
                                       [['A', gen_named_recipe(rng, 'runtime', sub, n=n, solve=False)]], n)
        return lrec, build_linker(lrec)
    rec = gen_named_recipe(rng, host, names, n=n, solve=False)
    M, m = build_instance(rec)
    if host == 'parser' and sorted(M.NAMES) != sorted(names):
        raise ValueError(f'the parser reads {names} as {M.NAMES}')
    return rec, m


def accepted(host):
    """Pool names the code under test accepts as a variable name on `host` (found by trying; once per process)."""
    if host not in _ACCEPTED:
        ok, refused = [], {}
        for nm in member_pool():
            try:
                with warnings.catch_warnings():
                    warnings.simplefilter('ignore')
                    try_named(host, [nm] if host != 'parser' else [nm, 'X'])
                ok.append(nm)
            except Exception as e:  # noqa: BLE001
                refused[nm] = type(e).__name__
        _ACCEPTED[host] = ok
        _ACCEPTED['refused:' + host] = refused
    return _ACCEPTED[host]


def names_ok(obj):
    names = list(obj.names)
    return len(set(names)) == len(names) and 'status' not in names and 'iterations' not in names


def violate(rep, key, what, case):
    """Record at most 25 failing inputs per key (the framework keeps 500 in total: one frequent key must not crowd
    out a different, new one); further ones are only counted."""
    if rep.dist['violation:' + key] < 25:
        rep.violate(key, what, case)
    else:
        rep.dist['violation:' + key] += 1


# ---- oracle: the property restated on the real objects ------------------------------------------------------

def same_label(a, b):
    try:
        r = (a == b)
        return bool(r) if not hasattr(r, '__len__') else bool(np.all(r))
    except Exception:  # noqa: BLE001
        return False


def oracle_table(obj, df, flags, rep, case, where):
    """`df` claims to be the export of `obj` (model or linker) under `flags` = (status, iterations, internal)."""
    st, it, internal = flags
    span = list(obj.span)
    idx = list(df.index)
    if len(idx) != len(span) or df.shape[0] != len(span):
        violate(rep, 'df-row-count', f'{where}: {df.shape[0]} rows for a span of {len(span)} periods', case)
        return
    for p, (a, b) in enumerate(zip(idx, span)):
        if not same_label(a, b):
            if b is None and isinstance(a, float) and a != a:
                # specific class: a None label stored by pandas as NaN (every other label equal)
                if all(same_label(x, y) for x, y in zip(idx, span) if y is not None):
                    violate(rep, KNOWN_NONE_LABEL, f'{where}: span {span!r} exported with index {idx!r}', case)
                    return
            violate(rep, 'df-index-label', f'{where}: index[{p}] = {a!r}, span[{p}] = {b!r}', case)
            return
    got = list(df.columns)
    names = list(obj.names)
    if len(set(map(repr, got))) != len(got):
        violate(rep, 'df-column-duplicate', f'{where}: duplicate column labels {got}', case)
        return
    # (st / it None = the keyword was omitted: the property does not say what the default is -> presence not checked)
    if st is not None and ('status' in got) != st:
        violate(rep, 'df-status-flag', f'{where}: status={st} but columns {got}', case)
    if it is not None and ('iterations' in got) != it:
        violate(rep, 'df-iterations-flag', f'{where}: iterations={it} but columns {got}', case)
    for nm in names:
        if nm.startswith('_'):
            if (nm in got) != internal:
                violate(rep, 'df-internal-flag', f'{where}: include_internal={internal} but {nm!r} '
                            f'{"present" if nm in got else "absent"}: {got}', case)
        elif nm not in got:
            violate(rep, 'df-column-missing', f'{where}: variable {nm!r} has no column: {got}', case)
    for c in got:
        if c not in names and c not in ('status', 'iterations'):
            violate(rep, 'df-column-unexpected', f'{where}: column {c!r} is not a variable: {got}', case)
    var_got = [c for c in got if c in names]
    var_want = [nm for nm in names if nm in got]
    if var_got != var_want:
        violate(rep, 'df-column-order', f'{where}: variable columns {var_got}, model order {var_want}', case)
    for nm in var_want:
        check_column(obj, nm, df[nm], rep, case, where, 'df')
    if st is not False and 'status' in got and toks(df['status']) != toks(series_of(obj, 'status', rep)):
        violate(rep, 'df-status-values', f'{where}: status column {df["status"].tolist()} != '
                    f'{series_of(obj, "status").tolist()}', case)
    if it is not False and 'iterations' in got:
        its = series_of(obj, 'iterations', rep)
        if toks(df['iterations']) != toks(its):
            violate(rep, 'df-iterations-values', f'{where}: iterations column {df["iterations"].tolist()} != '
                        f'{its.tolist()}', case)
        elif df['iterations'].dtype != its.dtype:
            violate(rep, 'df-dtype', f'{where}: iterations column has dtype {df["iterations"].dtype}, the series '
                        f'{its.dtype}', case)


SCALARS = (bool, int, float, complex, str, bytes, type(None), np.generic)


def short(x, n=160):
    r = repr(x)
    return r if len(r) <= n else r[:n] + '...'


def check_column(obj, nm, col, rep, case, where, prefix):
    """ABSOLUTE content of one exported column against the ground truth (`truth`: the array in the object's storage
    under `'_' + nm`): same cells (floats by IEEE bits), same numeric / boolean dtype.  A mismatch is classified:
    `<prefix>-column-not-a-series` (the column is not a 1-D series of scalar cells: a bound method, a property value
    broadcast, a 2-D array ...), `<prefix>-column-holds-other-series` (it is exactly the stored series of ANOTHER
    variable of the object), `<prefix>-values` (anything else), `<prefix>-dtype`."""
    series = series_of(obj, nm, rep)
    try:
        is_series = isinstance(col, pd.Series) and len(col) == len(series)
        cells = col.tolist() if is_series else None
        is_series = is_series and all(isinstance(v, SCALARS) for v in cells)
    except Exception:  # noqa: BLE001
        is_series, cells = False, None
    if not is_series:
        violate(rep, f'{prefix}-column-not-a-series', f'{where}: column {nm!r} is not a series of {len(series)} scalar cells: '
                    f'{short(cells if cells is not None else col)}; stored series {short(series.tolist())}', case)
        return False
    if [tok(v) for v in cells] != toks(series):
        other = [k for k in vars(obj)['index'] if k != nm and truth(obj, k) is not None
                 and len(series) and toks(truth(obj, k)) == [tok(v) for v in cells]]
        if other:
            violate(rep, f'{prefix}-column-holds-other-series', f'{where}: column {nm!r} holds {short(cells)} = the stored '
                        f'series of {other[0]!r}; its own stored series (__dict__[{"_" + nm!r}]) is {short(series.tolist())}', case)
        else:
            violate(rep, f'{prefix}-values', f'{where}: column {nm!r} holds {short(cells)}, the series is {short(series.tolist())}', case)
        return False
    if series.dtype.kind in 'fiub' and col.dtype != series.dtype:
        violate(rep, f'{prefix}-dtype', f'{where}: column {nm!r} has dtype {col.dtype}, the series {series.dtype}', case)
        return False
    if series.dtype.kind in 'fiub' and col.to_numpy().tobytes() != series.tobytes():
        violate(rep, f'{prefix}-values', f'{where}: column {nm!r} differs from the stored series byte-wise', case)
        return False
    return True


def oracle_container(obj, df, rep, case, where):
    span = list(obj.span)
    if df.shape[0] != len(span) or not all(same_label(a, b) for a, b in zip(df.index, span)):
        violate(rep, 'container-index', f'{where}: index {list(df.index)} for span {span}', case)
        return
    got = list(df.columns)
    want = list(vars(obj)['index'])
    if sorted(got) != sorted(want):
        violate(rep, 'container-columns', f'{where}: columns {got}, variables {want}', case)
        return
    if got != want:
        violate(rep, 'container-column-order', f'{where}: columns {got}, variable order {want}', case)
        return
    for nm in want:
        check_column(obj, nm, df[nm], rep, case, where, 'container')


def oracle_from_dataframe(M, m, df, m2, exc, rep, case, where):
    """`m2 = M.from_dataframe(df)` where df holds (a subset of) the data columns of `m`: every class variable that
    has a column must hold, IN ITS OWN STORAGE (`m2.__dict__['_' + name]`), the stored series of the original."""
    if exc is not None:
        if isinstance(exc, TypeError) and 'self' in list(df.columns):
            violate(rep, KNOWN_FD_SELF, f'{where}: columns {list(df.columns)}: {type(exc).__name__}: {exc}', case)
        else:
            violate(rep, 'from-dataframe-raises', f'{where}: {type(exc).__name__}: {exc}', case)
        return
    a, b = list(m2.span), list(m.span)
    if len(a) != len(b) or not all(same_label(x, y) for x, y in zip(a, b)):
        violate(rep, 'from-dataframe-span', f'{where}: span {a!r}, original {b!r}', case)
        return
    for nm in M.NAMES:
        if nm not in df.columns:
            continue
        new, old = truth(m2, nm), series_of(m, nm, rep)
        if new is None:
            if '_' + nm in vars(m2) or nm not in vars(m2)['index']:
                violate(rep, 'from-dataframe-not-a-series', f'{where}: {nm!r} is stored as {short(vars(m2).get("_" + nm))}', case)
                continue
            new = m2[nm]
        if toks(new) != toks(old):
            other = [k for k in M.NAMES if k != nm and truth(m, k) is not None and len(old) and toks(truth(m, k)) == toks(new)]
            if other:
                violate(rep, 'from-dataframe-holds-other-series', f'{where}: {nm!r} = {short(new.tolist())} = the original '
                            f'series of {other[0]!r}; original {nm!r}: {short(old.tolist())}', case)
            else:
                violate(rep, 'from-dataframe-values', f'{where}: {nm!r} = {short(new.tolist())}, original {short(old.tolist())}', case)


def classify_symbol_diff(orig, back):
    """Set of difference classes between two symbol lists of equal length."""
    out = set()
    for a, b in zip(orig, back):
        if not isinstance(b, Symbol):
            out.add('not-a-symbol')
            continue
        for f in Symbol._fields:
            x, y = getattr(a, f), getattr(b, f)
            if f == 'type':
                if not isinstance(y, Type) or y != x:
                    out.add('type')
            elif f in ('lags', 'leads'):
                if x is None:
                    if y is not None:
                        out.add('lags-leads-none-not-restored')
                elif isinstance(y, (bool, np.bool_)) or not isinstance(y, (int, np.integer)) or int(y) != x:
                    out.add('lags-leads-value')
            else:
                if x is None:
                    if isinstance(y, float) and y != y:
                        out.add('missing-str-nan')
                    elif y is not None:
                        out.add('str-none-not-restored')
                elif y is None or (isinstance(y, float) and y != y):
                    out.add('str-lost')          # a present str ('' included: '' is not None) came back missing
                elif not isinstance(y, str):
                    out.add('str-value')
                elif str(y) != x or len(y) != len(x):
                    # same type, other characters: compared character by character, so 'x ' vs 'x', '' vs ' ',
                    # '\t' vs ' ' are all told apart
                    out.add('str-altered')
    return out


def symbol_round_trip(ss):
    with warnings.catch_warnings():
        warnings.simplefilter('ignore')
        try:
            return fsic.tools.dataframe_to_symbols(fsic.tools.symbols_to_dataframe(ss)), None
        except Exception as e:  # noqa: BLE001
            return None, e


def oracle_symbols(ss, back, exc, rep, case):
    """Returns 'ok' | violation key."""
    if exc is not None:
        all_missing = bool(ss) and (all(s.lags is None for s in ss) or all(s.leads is None for s in ss))
        key = KNOWN_INT_RAISES if (isinstance(exc, TypeError) and all_missing) else 'symbols-roundtrip-raises'
        violate(rep, key, f'round trip raised {type(exc).__name__}: {exc}', case)
        return key
    if not isinstance(back, list) or len(back) != len(ss):
        violate(rep, 'symbols-roundtrip-length', f'{len(ss)} symbols in, {len(back) if isinstance(back, list) else type(back).__name__} out', case)
        return 'symbols-roundtrip-length'
    diff = classify_symbol_diff(ss, back)
    if not diff:
        try:
            same = bool(back == ss) and all(tuple(b) == tuple(a) for a, b in zip(ss, back))
        except Exception:  # noqa: BLE001
            same = False
        if not same:
            violate(rep, 'symbols-roundtrip-tuple-neq', f'round trip returned {back!r} != {ss!r}', case)
            return 'symbols-roundtrip-tuple-neq'
        return 'ok'
    if diff == {'missing-str-nan'}:
        key = KNOWN_STR_NAN
    else:
        key = 'symbols-roundtrip-' + '+'.join(sorted(diff - {'missing-str-nan'}))
    bad = [(a, b) for a, b in zip(ss, back) if classify_symbol_diff([a], [b])][:2]
    violate(rep, key, f'round trip changed symbols: {bad!r}', case)
    return key


# ---- canonical forms for the model comparison ----------------------------------------------------------------

def sym_in(ss):
    return [[s.name, int(s.type), s.lags, s.leads, s.equation, s.code] for s in ss]


def pyval(x, field):
    if field == 'type':
        return 't:%d' % int(x) if isinstance(x, (int, np.integer)) else 'o:' + repr(x)
    if x is None:
        return 'none'
    if isinstance(x, (bool, np.bool_)):
        return 'o:bool'
    if isinstance(x, str):
        return 's:' + x
    if isinstance(x, (int, np.integer)):
        return f'i:{int(x)}'
    if isinstance(x, (float, np.floating)):
        if x != x:
            return 'nan'
        return f'f:{int(x)}' if float(x) == int(x) else 'o:' + repr(float(x))
    return 'o:' + type(x).__name__


def sym_out(back):
    return [[pyval(getattr(s, f), f) for f in Symbol._fields] for s in back]


def conforming(ss):
    """What the property demands, in the canonical form of `sym_out`."""
    return [[pyval(getattr(s, f), f) for f in Symbol._fields] for s in ss]


# ---- the run -----------------------------------------------------------------------------------------------

def check_tables(ctx, rep, items):
    """items: (what, store_json, flags|None, impl_table, case).  One driver batch."""
    if ctx.oracle_only or not items:
        return
    lines = []
    for what, store, flags, impl, case in items:
        if flags is None:
            lines.append('tools_container\t' + json.dumps({'store': store}))
        else:
            lines.append('tools_columns\t' + json.dumps({'store': store, 'status': flags[0], 'iterations': flags[1],
                                                         'include_internal': flags[2]}))
    outs = ctx.drive(lines)
    for (what, store, flags, impl, case), o in zip(items, outs):
        model = json.loads(o) if not o.startswith('!') else o
        if flags is None:
            same = model == impl
        else:
            same = not isinstance(model, str) and split_special(model) == split_special(impl)
        if not same:
            rep.disagree(what + ': model != impl', case, model, impl)


def run_models(ctx, rep, n_models):
    rng = ctx.sub_rng('models')
    scripts = []
    items = []
    ft_items = []
    made = 0
    attempts = 0
    while made < n_models and attempts < n_models * 4:
        attempts += 1
        script = gen_script(rng) if rng.random() < 0.9 else rng.choice(CATALOGUE)
        try:
            with warnings.catch_warnings():
                warnings.simplefilter('ignore')
                M = model_class(script)
        except Exception as e:  # noqa: BLE001  (generator produced something the parser rejects: not this property)
            rep.dist['script-rejected:' + type(e).__name__] += 1
            continue
        scripts.append(script)
        rec = gen_recipe(rng, script, list(M.NAMES))
        try:
            M, m = build_instance(rec)
        except Exception as e:  # noqa: BLE001
            rep.dist['instance-failed:' + type(e).__name__] += 1
            continue
        made += 1
        one_model(ctx, rep, rec, M, m, items, ft_items, rng)
        if len(items) > 4000:
            check_tables(ctx, rep, items)
            items = []
    check_tables(ctx, rep, items)
    check_from_table(ctx, rep, ft_items)
    return scripts


def oracle_snapshot(m, df, rep, case, where):
    """The exported table HOLDS the series' values: it is a snapshot, not a window onto the model.  An export taken now
    must read the same after the model moves on (solve, in-place writes), and editing the table must not write into the
    model — otherwise export -> (model changes) -> from_dataframe does not reproduce the exported values.  Judged on the
    storage arrays (`vars(m)['_' + name]`): no column may share memory with its series, and an in-place change of the
    series must not show in the table already returned."""
    for nm in list(vars(m)['names']):
        a = vars(m).get('_' + nm)
        if not isinstance(a, np.ndarray) or a.ndim != 1 or a.size == 0 or a.dtype.kind not in 'fiub':
            continue
        try:
            col = df[nm]
        except Exception:  # noqa: BLE001
            continue
        if not isinstance(col, pd.Series):
            continue
        try:
            shared = bool(np.shares_memory(col.to_numpy(copy=False), a))
        except Exception:  # noqa: BLE001
            shared = False
        before = col.to_numpy(copy=True)
        old = a.copy()
        try:
            with np.errstate(all='ignore'):
                a[...] = (~a) if a.dtype.kind == 'b' else (a + 1)
            after = df[nm].to_numpy(copy=True)
        finally:
            a[...] = old
        moved = not (before.shape == after.shape and all(same_cell(x, y) for x, y in zip(before.tolist(), after.tolist())))
        rep.dist['snapshot-probed'] += 1
        if shared or moved:
            violate(rep, 'export-shares-model-storage',
                    f'{where}: column {nm!r} of the returned table ' +
                    ('changed when the model series was written in place afterwards' if moved else 'shares memory with the model series') +
                    ' (the export is a view of the model, not its values)', case)
            return


def same_cell(x, y):
    return (x != x and y != y) or x == y


def safe(fn, rep, key, where, case):
    """Run an export / import of the code under test; an exception is a violation `key`, never a harness error."""
    try:
        with np.errstate(all='ignore'):
            return fn(), None
    except Exception as e:  # noqa: BLE001
        if key is not None:
            violate(rep, key, f'{where} raised {type(e).__name__}: {short(str(e), 300)}', case)
        return None, e


def canon_or_none(df):
    try:
        return table_canon(df)
    except Exception:  # noqa: BLE001
        return 'uncanonical'


ALL_VARIANTS = ('data-columns', 'dropped', 'all-flags', 'subset+extra', 'ints')


def count_name_kinds(rep, names, prefix='name-kind:'):
    """Per case: which kinds of access-path-sensitive names its variables have."""
    kinds = set()
    if twin_kind(names):
        kinds.add('underscore-twin')
    for nm in names:
        k = name_kind(nm)
        if k != 'plain':
            kinds.add(k)
        elif nm.startswith('_'):
            kinds.add('underscore-prefixed')
    for k in kinds or {'plain-only'}:
        rep.dist[prefix + k] += 1
    return kinds


def series_unique(obj):
    """No two series of the object are equal (the precondition for a mix-up to be visible)."""
    seen = set()
    for k in vars(obj)['index']:
        if k in ('status', 'iterations'):
            continue
        t = truth(obj, k)
        key = None if t is None else (t.dtype.kind in 'fiub', tuple(toks(t)))
        if key is None or key in seen:
            return False
        seen.add(key)
    return True


def one_model(ctx, rep, rec, M, m, items, ft_items, rng, flags_list=FLAGS, entries=('method', 'function'),
              variants=ALL_VARIANTS):
    rep.dist['span:' + rec['span'][0]] += 1
    rep.dist['solved' if rec['solve'] else 'unsolved'] += 1
    rep.dist['n_extras:%d' % len(rec['extras'])] += 1
    rep.dist['model-host:' + rec.get('host', 'parser-script')] += 1
    for nm, dt, spec in rec['extras']:
        rep.dist['extra-dtype:' + dt] += 1
        if has_edge_ws(nm):
            rep.dist['edge-ws:column-label'] += 1
        if dt == 'str' and any(has_edge_ws(v) for v in spec['vals']):
            rep.dist['edge-ws:str-cell-variable'] += 1
    if rec['span'][0] in ('wsstr', 'npwsstr', 'pdwsstr') and rec['span'][1]:
        rep.dist['edge-ws:span-labels'] += 1
    if not names_ok(m):
        rep.dist['names-guard-broken'] += 1
        rep.notes.append(f'instance with duplicate/reserved variable names: {list(m.names)}')
        return
    count_name_kinds(rep, list(vars(m)['names']))
    if rec.get('uniq') and len(m.span):
        rep.dist['series-all-unique' if series_unique(m) else 'series-not-unique'] += 1
    store = store_json(m)
    nontrivial = bool(len(m.span)) and bool(m.names)
    for flags in flags_list:
        kw = {'status': flags[0], 'iterations': flags[1], 'include_internal': flags[2]}
        for entry in entries:
            case = {'kind': 'table', 'recipe': rec, 'flags': list(flags), 'entry': entry}
            where = f'{entry} to_dataframe{kw}'
            df, exc = safe((lambda: m.to_dataframe(**kw)) if entry == 'method' else (lambda: fsic.tools.model_to_dataframe(m, **kw)),
                           rep, 'df-export-raises', where, case)
            if exc is None:
                if not isinstance(df, pd.DataFrame):
                    violate(rep, 'df-not-a-dataframe', f'{where} returned {type(df).__name__}', case)
                else:
                    oracle_table(m, df, flags, rep, case, where)
                    oracle_snapshot(m, df, rep, case, where)
                    items.append(('model_to_dataframe', store, flags, canon_or_none(df), case))
            rep.case(json.dumps(case, sort_keys=True), nontrivial=nontrivial,
                     sample={'script': rec.get('script', rec.get('class_names')), 'span': rec['span'], 'flags': list(flags),
                             'columns': list(df.columns)} if exc is None and rep.evaluations % 1499 == 0 else None)
    # container export
    case = {'kind': 'container', 'recipe': rec}
    cdf, exc = safe(lambda: VectorContainer.to_dataframe(m), rep, 'container-export-raises', 'VectorContainer.to_dataframe(model)', case)
    if exc is None:
        oracle_container(m, cdf, rep, case, 'VectorContainer.to_dataframe(model)')
        items.append(('VectorContainer.to_dataframe', store, None, canon_or_none(cdf), case))
    rep.case(json.dumps(case, sort_keys=True), nontrivial=nontrivial)
    # import
    for variant in variants:
        case = {'kind': 'from_dataframe', 'recipe': rec, 'variant': variant}
        kwargs = {}
        try:
            if variant == 'data-columns':
                df = m.to_dataframe(status=False, iterations=False, include_internal=True)
            elif variant == 'dropped':
                df = m.to_dataframe(include_internal=False).drop(columns=['status', 'iterations'])
            elif variant == 'all-flags':
                df = m.to_dataframe(include_internal=True)
            elif variant == 'subset+extra':
                df = m.to_dataframe(status=False, iterations=False)
                keep = [c for c in df.columns if rng.random() < 0.6]
                df = df[keep].copy()
                df['Zz_extra'] = 1.5
                if 'default_value' not in keep:      # (a column of that label already binds the parameter)
                    kwargs = {'default_value': rng.choice([2.5, 3, -1.0])}
            else:
                df = pd.DataFrame({nm: [rng.choice([0, 1, -7, 12]) for _ in m.span] if j % 2 == 0 else
                                   [rng.random() < 0.5 for _ in m.span] for j, nm in enumerate(M.NAMES)}, index=m.span)
                if len(m.span) == 0:
                    df = df.astype(int)
                # (a column labelled default_value binds the constructor's parameter: it matters like a class variable's)
            if any(df[c].dtype.kind not in 'fiub' for c in df.columns if c in M.NAMES or c == 'default_value'):
                continue
        except Exception:  # noqa: BLE001  (the export itself failed: reported above)
            rep.dist['from_dataframe-skipped:export-failed'] += 1
            continue
        m2, exc = safe(lambda: M.from_dataframe(df, **kwargs), rep, None, '', case)
        if variant in ('data-columns', 'dropped', 'all-flags'):
            oracle_from_dataframe(M, m, df, m2, exc, rep, case, f'from_dataframe({variant})')
        rep.case(json.dumps(case, sort_keys=True), nontrivial=nontrivial)
        # series compared by name AS STORED (the order of the container index is not an observable of this property)
        try:
            impl = 'raises' if m2 is None else {'span': [tok(x) for x in m2.span], 'names': list(m2.names),
                                                'dict': stored_dict(m2)}
        except Exception:  # noqa: BLE001
            impl = 'unreadable'
        ft_items.append((canon_or_none(df), list(M.NAMES), tok(kwargs.get('default_value', 0.0)), impl, case))


def stored_dict(obj):
    sj = store_json(obj)
    return sorted(sj['dict']) if 'dict' in sj else sorted(['_' + k, cells] for k, cells in sj['data'])


def one_container(ctx, rep, rec, c, items):
    """A plain VectorContainer (recipe with `container`): `to_dataframe` against the ground truth + the model."""
    names = list(vars(c)['index'])
    rep.dist['model-host:container'] += 1
    count_name_kinds(rep, names)
    if len(c.span):
        rep.dist['series-all-unique' if series_unique(c) else 'series-not-unique'] += 1
    case = {'kind': 'container', 'recipe': rec}
    df, exc = safe(lambda: c.to_dataframe(), rep, 'container-export-raises', 'VectorContainer.to_dataframe', case)
    if exc is None:
        oracle_container(c, df, rep, case, 'VectorContainer.to_dataframe')
        items.append(('VectorContainer.to_dataframe (plain container)', store_json(c), None, canon_or_none(df), case))
    rep.case(json.dumps(case, sort_keys=True), nontrivial=bool(names))


def check_from_table(ctx, rep, ft_items):
    if ctx.oracle_only or not ft_items:
        return
    ft_items = [x for x in ft_items if x[0] != 'uncanonical']
    # (an optional 6th entry: the `strict=` argument as a flag form)
    outs = ctx.drive(['tools_from_table\t' + json.dumps(dict({'table': x[0], 'NAMES': x[1], 'default': x[2]},
                                                              **({'strict': x[5]} if len(x) > 5 else {})))
                      for x in ft_items])
    for (t, names, d, impl, case, *_), o in zip(ft_items, outs):
        model = json.loads(o) if not o.startswith('!') else o
        if isinstance(model, dict):
            # the constructed instance as it is in memory: storage key -> cells
            model = {'span': model['span'], 'names': model['names'], 'dict': sorted(model['dict'])}
        if model != impl:
            rep.disagree('from_dataframe: model != impl', case, model, impl)


LINKER_NAMES = ['_', 'L', 'world', 0, 17]
SUB_KEYS = ['A', 'B', 'uk', 1, 2, 'L']


OWN_CHOICES = [[], ['T'], ['T', '_U'], ['_U', 'V', 'T'], ['T', '_T'], ['_T', 'T', '__T'], ['size', '_size', 'copy'],
               ['values', 'nbytes'], ['V', '_V_', '_V', 'sizes']]


def gen_linker_recipe(rng, scripts):
    nsub = rng.choice([0, 1, 2, 2, 3])
    # BaseLinker compares submodel spans with `!=`, which only yields a bool for plain sequences
    kind = rng.choice(SPAN_KINDS if nsub <= 1 else ['range', 'liststr', 'listint', 'mixed', 'wsstr'])
    n = rng.choice([1, 2, 3, 4, 5])
    o = rng.randint(0, 3)
    keys = rng.sample(SUB_KEYS, nsub)
    subs = []
    for k in keys:
        script = rng.choice(scripts)
        M = model_class(script)
        rec = gen_recipe(rng, script, list(M.NAMES))
        rec['span'] = [kind, n, o]
        if not rec.get('uniq'):
            rec['init'] = {}
        rec['edits'] = [e for e in rec['edits'] if e[0] < n]
        for j, ex in enumerate(rec['extras']):
            ex[2] = ({'scalar': False, 'vals': uniq_vals(ex[0], len(M.NAMES) + j, n, ex[1])} if rec.get('uniq')
                     else gen_extra_values(rng, ex[1], n))
        if rec.get('uniq'):
            rec['init'] = {v: [bits(x) for x in uniq_vals(v, j, n, 'float')] for j, v in enumerate(M.NAMES) if v not in ctor_params()}
        subs.append([k, rec])
    name = rng.choice([x for x in LINKER_NAMES if x not in keys])
    if keys and rng.random() < 0.06:
        name = rng.choice(keys)
    own = rng.choice(OWN_CHOICES)
    extras = []
    pool = EXTRA_NAMES + ['_' + v for v in own] + (rng.sample(accepted('linker-runtime'), 2) if rng.random() < 0.3 else [])
    for nm in rng.sample(pool, rng.choice([0, 1, 2])):
        if nm in own or nm in [e[0] for e in extras]:
            continue
        dt = rng.choice(list(DTYPES))
        extras.append([nm, dt, gen_extra_values(rng, dt, n)])
    lrec = {'name': name, 'own': own, 'subs': subs, 'extras': extras, 'solve': rng.random() < 0.4,
            'span': [kind, n, o]}
    if rng.random() < 0.5:
        uniquify_linker(lrec, n)
    return lrec


def uniquify_linker(lrec, n):
    """Unique series for the linker's core variables (declared: initial values / written to storage; run-time:
    add_variable values)."""
    lrec['uniq'] = True
    lrec['init'], lrec['poke'] = {}, {}
    for j, v in enumerate(lrec['own']):
        (lrec['poke'] if v in ctor_params() else lrec['init'])[v] = [bits(x) for x in uniq_vals(v, 40 + j, n, 'float')]
    for j, e in enumerate(lrec['extras']):
        if e[1] in ('bool', 'uint8'):
            e[1] = 'int'
        e[2] = {'scalar': False, 'vals': uniq_vals(e[0], 50 + j, n, e[1])}


def gen_named_linker_recipe(rng, own, runtime, subs, n, kind='range', o=0, name='_'):
    """Linker whose CORE variables are `own` (declared by the class) + `runtime` (add_variable), over the given
    submodel recipes (all re-spanned to the linker's span)."""
    for _, rec in subs:
        rec['span'] = [kind, n, o]
    lrec = {'name': name, 'own': list(own), 'subs': subs, 'solve': False, 'span': [kind, n, o],
            'extras': [[nm, rng.choice(UNIQ_DTYPES), None] for nm in runtime]}
    uniquify_linker(lrec, n)
    return lrec


_LINKER_CLASSES = {}


def linker_class(own):
    key = tuple(own)
    if key not in _LINKER_CLASSES:
        class Lk(fsic.BaseLinker):
            ENDOGENOUS = list(own[:1])
            EXOGENOUS = list(own[1:])
            NAMES = ENDOGENOUS + EXOGENOUS
            CHECK = ENDOGENOUS
        _LINKER_CLASSES[key] = Lk
    return _LINKER_CLASSES[key]


def build_linker(lrec):
    subs = {}
    for k, rec in lrec['subs']:
        subs[k] = build_instance(rec)[1]
    init = {k: [unbits(b) for b in v] for k, v in lrec.get('init', {}).items()}
    L = linker_class(lrec['own'])
    if lrec.get('mixin', 'plain') != 'plain':
        L = mixin_class(L, lrec['mixin'], lrec.get('aliases', []), lrec.get('preferred', []))
    l = L(subs if subs else {}, name=lrec['name'], **(init if subs else {}))
    if subs:
        for k, v in lrec.get('poke', {}).items():
            vars(l)['_' + k][:] = [unbits(b) for b in v]
    apply_extras(l, [e for e in lrec['extras']] if len(l.span) == lrec['span'][1] else [])
    if lrec['solve']:
        with warnings.catch_warnings(), np.errstate(all='ignore'):
            warnings.simplefilter('ignore')
            try:
                l.solve(max_iter=3, failures='ignore', errors='ignore')
            except Exception:  # noqa: BLE001
                pass
    return l


def ktok(k):
    return tok(k)


def oracle_linker(l, flags, d, rep, case):
    kw = {'status': flags[0], 'iterations': flags[1], 'include_internal': flags[2]}
    subkeys = list(l.submodels.keys())
    if any(same_label(l.name, k) for k in subkeys):
        return 'name-collision'   # a dict cannot hold both tables: the property has no reading here
    if not isinstance(d, dict) or len(d) != len(subkeys) + 1 or set(map(ktok, d.keys())) != set(map(ktok, subkeys + [l.name])):
        violate(rep, 'linker-tables-keys', f'to_dataframes{kw}: keys {list(d.keys()) if isinstance(d, dict) else type(d)}, '
                    f'submodels {subkeys}, linker {l.name!r}', case)
        return 'bad-keys'
    oracle_table(l, d[l.name], flags, rep, case, f'linker table {l.name!r} {kw}')
    for k in subkeys:
        oracle_table(l.submodels[k], d[k], flags, rep, case, f'submodel table {k!r} {kw}')
    return 'ok'


def one_linker(ctx, rep, lrec, l, items, flags_list=FLAGS, entries=('method', 'function')):
    rep.dist['linker-submodels:%d' % len(lrec['subs'])] += 1
    if not names_ok(l) or not all(names_ok(s) for s in l.submodels.values()):
        rep.dist['names-guard-broken'] += 1
        return
    count_name_kinds(rep, list(vars(l)['names']), 'linker-core-name-kind:')
    for sub in l.submodels.values():
        count_name_kinds(rep, list(vars(sub)['names']), 'submodel-name-kind:')
    if lrec.get('uniq') and len(l.span):
        rep.dist['linker-series-all-unique' if series_unique(l) else 'linker-series-not-unique'] += 1
    lstore = store_json(l)
    sstores = [[ktok(k), store_json(s)] for k, s in l.submodels.items()]
    for flags in flags_list:
        kw = {'status': flags[0], 'iterations': flags[1], 'include_internal': flags[2]}
        for entry in entries:
            case = {'kind': 'linker', 'lrecipe': lrec, 'flags': list(flags), 'entry': entry}
            d, exc = safe((lambda: l.to_dataframes(**kw)) if entry == 'method' else (lambda: fsic.tools.linker_to_dataframes(l, **kw)),
                          rep, 'linker-export-raises', f'{entry} to_dataframes{kw}', case)
            rep.case(json.dumps(case, sort_keys=True, default=str), nontrivial=bool(lrec['subs']))
            if exc is not None:
                continue
            r = oracle_linker(l, flags, d, rep, case)
            rep.dist['linker:' + r] += 1
            try:
                impl = sorted([[ktok(k), list(split_special(table_canon(v)))] for k, v in d.items()], key=lambda p: p[0]) \
                    if isinstance(d, dict) else 'not-a-dict'
            except Exception:  # noqa: BLE001
                impl = 'uncanonical'
            items.append((ktok(l.name), lstore, sstores, flags, impl, case))
        # the linker's own to_dataframe
        case = {'kind': 'linker-own', 'lrecipe': lrec, 'flags': list(flags)}
        df, exc = safe(lambda: l.to_dataframe(**kw), rep, 'df-export-raises', f'linker.to_dataframe{kw}', case)
        if exc is None:
            oracle_table(l, df, flags, rep, case, f'linker.to_dataframe{kw}')
        rep.case(json.dumps(case, sort_keys=True, default=str), nontrivial=True)


def check_linkers(ctx, rep, items):
    if ctx.oracle_only or not items:
        return
    # (f: three bools, or three flag forms `form_json`)
    outs = ctx.drive(['tools_linker\t' + json.dumps({'name': nm, 'linker': ls, 'subs': ss, 'status': f[0], 'iterations': f[1],
                                                     'include_internal': f[2]}) for nm, ls, ss, f, _, _ in items])
    for (nm, ls, ss, f, impl, case), o in zip(items, outs):
        if o.startswith('!'):
            model = o
        else:
            model = sorted([[k, list(split_special(t))] for k, t in json.loads(o)], key=lambda p: p[0])
        if json.loads(json.dumps(model)) != json.loads(json.dumps(impl)):
            rep.disagree('linker_to_dataframes: model != impl', case, model, impl)


def run_linkers(ctx, rep, n_linkers, scripts):
    rng = ctx.sub_rng('linkers')
    scripts = [s for s in scripts if s in _CLASS_CACHE] or ['Y = X']
    items = []
    for _ in range(n_linkers):
        lrec = gen_linker_recipe(rng, scripts)
        try:
            l = build_linker(lrec)
        except Exception as e:  # noqa: BLE001
            rep.dist['linker-failed:' + type(e).__name__] += 1
            continue
        one_linker(ctx, rep, lrec, l, items)
    check_linkers(ctx, rep, items)


# ---- the name pools, systematically --------------------------------------------------------------------------------

LIGHT_FLAGS = [(False, False, True), (True, True, False)]


def run_names(ctx, rep, n_random, n_random_linkers):
    """(a) EXHAUSTIVE over the pool (seed-independent): every pool name x every host (declared by a hand-written
    class, added at run time, through the parser, in a plain container, as a declared / run-time core variable of a
    linker whose submodel also carries it) — built only where the code under test accepts the name (refusals are
    counted per host and kind), then exported / re-imported against the ground truth; each accepted name also together
    with its own underscore twin.  (b) random instances mixing 2-4 members of a twin group, 0-3 member-like names and
    ordinary names, in random order, all hosts, linkers with such submodels and core variables."""
    rng = ctx.sub_rng('names')
    items, ft_items, litems = [], [], []
    quick = ctx.tier == 'quick'
    flags_single = LIGHT_FLAGS if quick else FLAGS
    pool = member_pool()
    rep.dist['name-pool:size'] = max(rep.dist['name-pool:size'], len(pool))
    # ---- (a)
    jobs = [(host, nm) for nm in pool for host in NAME_HOSTS]
    for idx, (host, nm) in enumerate(jobs):
        if idx % ctx.parts != ctx.part:
            continue
        kind = name_kind(nm)
        names = [nm, 'X'] if host == 'parser' else ['Y', nm, 'X'] if host == 'class' else [nm]
        if nm in ('Y', 'X'):
            names = [nm, 'Q']
        try:
            with warnings.catch_warnings():
                warnings.simplefilter('ignore')
                rec, obj = try_named(host, names, n=3)
        except Exception:  # noqa: BLE001
            rep.dist[f'refused:{host}:{kind}'] += 1
            rep.dist['refused-by-constructor:' + host] += 1
            continue
        rep.dist[f'accepted:{host}:{kind}'] += 1
        run_named(ctx, rep, host, rec, obj, items, ft_items, litems, rng, flags_single)
        # the same name next to its own underscore twin(s), twin first and twin last
        if host in ('class', 'runtime', 'container', 'linker-class') and not (quick and idx % 3):
            for tw in ([nm, '_' + nm, 'X', '__' + nm], ['_' + nm, 'X', nm]):
                try:
                    with warnings.catch_warnings():
                        warnings.simplefilter('ignore')
                        rec, obj = try_named(host, tw, n=2)
                except Exception:  # noqa: BLE001
                    rep.dist[f'refused:{host}:twin-of-{kind}'] += 1
                    continue
                run_named(ctx, rep, host, rec, obj, items, ft_items, litems, rng, LIGHT_FLAGS)
    # ---- (b)
    for _ in range(n_random):
        host = rng.choice(['class', 'class', 'runtime', 'parser', 'container'])
        names = gen_names(rng, host)
        rec = gen_named_recipe(rng, host, names)
        try:
            with warnings.catch_warnings():
                warnings.simplefilter('ignore')
                M, obj = build_instance(rec)
                if host == 'parser' and sorted(M.NAMES) != sorted(names):
                    raise ValueError('parser reads the names differently')
        except Exception as e:  # noqa: BLE001
            rep.dist[f'named-instance-failed:{host}:{type(e).__name__}'] += 1
            continue
        run_named(ctx, rep, host, rec, obj, items, ft_items, litems, rng, FLAGS)
    for _ in range(n_random_linkers):
        kind = rng.choice(['range', 'liststr', 'listint', 'mixed'])
        n, o = rng.choice([1, 2, 3, 4]), rng.randint(0, 3)
        subs = []
        for key in rng.sample(SUB_KEYS, rng.choice([1, 1, 2])):
            host = rng.choice(['class', 'runtime', 'parser'])
            subs.append([key, gen_named_recipe(rng, host, gen_names(rng, host), n=n, solve=rng.random() < 0.3)])
        own = gen_names(rng, 'linker-class') if rng.random() < 0.7 else []
        runtime = [x for x in (gen_names(rng, 'linker-runtime') if rng.random() < 0.6 else []) if x not in own]
        lrec = gen_named_linker_recipe(rng, own, runtime, subs, n, kind, o, name=rng.choice([x for x in LINKER_NAMES if x not in [k for k, _ in subs]]))
        lrec['solve'] = rng.random() < 0.3
        try:
            with warnings.catch_warnings():
                warnings.simplefilter('ignore')
                l = build_linker(lrec)
        except Exception as e:  # noqa: BLE001
            rep.dist[f'named-linker-failed:{type(e).__name__}'] += 1
            continue
        rep.dist['named-linkers'] += 1
        one_linker(ctx, rep, lrec, l, litems)
    check_tables(ctx, rep, items)
    check_from_table(ctx, rep, ft_items)
    check_linkers(ctx, rep, litems)


def run_named(ctx, rep, host, rec, obj, items, ft_items, litems, rng, flags_list):
    if host in ('linker-class', 'linker-runtime'):
        one_linker(ctx, rep, rec, obj, litems, flags_list=flags_list, entries=('method',) if flags_list is LIGHT_FLAGS else ('method', 'function'))
    elif host == 'container':
        one_container(ctx, rep, rec, obj, items)
    else:
        M = type(obj)
        one_model(ctx, rep, rec, M, obj, items, ft_items, rng, flags_list=flags_list,
                  variants=('data-columns', 'dropped') if flags_list is LIGHT_FLAGS else ALL_VARIANTS)


def gen_names(rng, host):
    """2-6 variable names for `host`: with probability 0.7 two to four members of one twin group (always an adjacent
    pair `x`, `_x`), 0-3 member-like names the host accepts, 0-2 ordinary names; random order (a twin before or after
    the name whose storage key it is)."""
    names = []
    ok = accepted(host)
    if rng.random() < 0.7:
        g = twin_group(rng.choice(TWIN_BASES + rng.sample(ok, min(3, len(ok)))))
        i = rng.choice([0, 0, 1])
        names += [g[i], g[i + 1] if i < 2 else g[3]]
        names += [x for x in rng.sample(g, rng.choice([0, 1, 2])) if x not in names]
    names += [x for x in rng.sample(ok, min(len(ok), rng.choice([0, 1, 1, 2, 3]))) if x not in names]
    names += [x for x in rng.sample(VAR_POOL, rng.choice([0, 1, 2])) if x not in names]
    while len(names) < 2:
        x = rng.choice(VAR_POOL)
        if x not in names:
            names.append(x)
    rng.shuffle(names)
    if host == 'parser':
        names = [x for x in names if x.isidentifier()]
    if host == 'runtime':        # (the base class already declares Y and X: their twins stay, they themselves go)
        names = [x for x in names if x not in ('Y', 'X')] or ['_Y', '__Y']
    return names


# ---- extension mixins x entry points x the FORM of the flags ---------------------------------------------------------
# The export is a function of (names, series, span, flags): a class built with extension mixins must give the table of
# the plain class, through every entry point, and a flag counts by its TRUTH VALUE in whatever form it comes
# (`np.True_` from a comparison, `1`, ...).  Three independent references for every exported table:
#   (1) the storage-level ground truth (`oracle_table`: existing keys),
#   (2) the table of the PLAIN class built from the same recipe, same entry point, same flags
#       (`df-mixin-export-differs:<class>:<entry>`),
#   (3) the table of the SAME object for `bool(flag)` in place of every flag (`df-flag-form:<form>:<flag>`),
# plus the Lean model (`classExport` through the wrappers of the MRO; `truthy` on the form of each flag).

OMIT = type('Omitted', (), {'__repr__': lambda self: '<omitted>'})()       # the keyword is not passed at all
FLAG_NAMES = ('status', 'iterations', 'include_internal')
MIXIN_SPECS = [('alias', 'AliasMixin'), ('tracer', 'TracerMixin'), ('pandasindex', 'PandasIndexFeaturesMixin'),
               ('progress', 'ProgressBarMixin')]
CLASS_KINDS = {'plain': [], 'alias': ['alias'], 'tracer': ['tracer'], 'pandasindex': ['pandasindex'], 'progress': ['progress'],
               'all:alias-first': ['alias', 'tracer', 'pandasindex', 'progress'],
               'all:alias-last': ['progress', 'pandasindex', 'tracer', 'alias']}
LINKER_KINDS = ('plain', 'alias')
_MIXINS = {}
_MIXIN_CLASSES = {}


def mixins():
    """{key: mixin class | None (not importable here)}."""
    if not _MIXINS:
        import importlib
        for key, attr in MIXIN_SPECS:
            cls = None
            for mod in ('fsic.extensions', 'fsic.extensions.common', 'fsic.extensions.model'):
                try:
                    cls = getattr(importlib.import_module(mod), attr)
                    break
                except Exception:  # noqa: BLE001
                    continue
            _MIXINS[key] = cls
    return _MIXINS


def mro_of(kind):
    """The importable mixins of a class kind, outermost first."""
    return [k for k in CLASS_KINDS.get(kind, []) if mixins().get(k) is not None]


def class_kinds():
    """Class kinds that can be built here (a single-mixin kind whose mixin cannot be imported is left out)."""
    return [k for k, mro in CLASS_KINDS.items() if not mro or (mro_of(k) and (len(mro) > 1 or len(mro_of(k)) == 1))]


def mixin_class(base, kind, aliases, preferred=()):
    key = (base, kind, tuple(map(tuple, aliases)), tuple(preferred))
    if key not in _MIXIN_CLASSES:
        bases = tuple(mixins()[k] for k in mro_of(kind)) + (base,)
        ns = {}
        if 'alias' in mro_of(kind):
            ns = {'ALIASES': {a: t for a, t in aliases}, 'PREFERRED_NAMES': list(preferred)}
        _MIXIN_CLASSES[key] = type('Mx_' + ''.join(ch if ch.isalnum() else '_' for ch in kind), bases, ns)
    return _MIXIN_CLASSES[key]


# ---- flag forms (reconstructible from JSON)

def form_json(v):
    if v is OMIT:
        return {'form': 'omitted'}
    if v is None:
        return {'form': 'none'}
    if isinstance(v, bool):
        return {'form': 'bool', 'value': v}
    if isinstance(v, np.bool_):
        return {'form': 'np.bool_', 'value': bool(v)}
    if isinstance(v, np.integer):
        return {'form': 'np.int64', 'value': int(v)}
    if isinstance(v, int):
        return {'form': 'int', 'value': v}
    if isinstance(v, np.floating):
        return {'form': 'np.float64', 'bits': bits(v)}
    if isinstance(v, float):
        return {'form': 'float', 'bits': bits(v)}
    if isinstance(v, str):
        return {'form': 'str', 'value': v}
    raise TypeError(f'no flag form for {v!r}')


def form_value(j):
    if isinstance(j, bool):
        return j
    f = j['form']
    if f == 'omitted':
        return OMIT
    if f == 'none':
        return None
    if f == 'bool':
        return bool(j['value'])
    if f == 'np.bool_':
        return np.bool_(j['value'])
    if f == 'int':
        return int(j['value'])
    if f == 'np.int64':
        return np.int64(j['value'])
    if f == 'float':
        return unbits(j['bits'])
    if f == 'np.float64':
        return np.float64(unbits(j['bits']))
    if f == 'str':
        return str(j['value'])
    raise ValueError(f)


def form_name(v):
    return form_json(v)['form']


def plain_bool(v):
    """`bool(flag)` as a real `bool`; an omitted keyword stays omitted."""
    return v if v is OMIT else bool(v)


def truth_or_none(v):
    return None if v is OMIT else bool(v)


def is_plain(v):
    return v is OMIT or isinstance(v, bool)


QUICK_FORMS = [np.True_, np.False_, 1, 0, 1.0, 0.0, 'x', '', None, OMIT]
MORE_FORMS = [2, -1, np.int64(1), np.int64(0), np.float64(2.5), np.float64(0.0), -0.0, float('nan'), 'False', '0', ' ',
              np.int8(0), np.float32(1.0)]
SAME_FORM_FAMILIES = [(np.True_, np.False_), (1, 0), (1.0, 0.0), ('x', '')]
BOOL_TRIPLES = [(s, i, n) for s in (False, True) for i in (False, True) for n in (False, True)]


def form_triples(rng, full, thorough=False, n_random=12):
    """Flag triples: the 8 plain-bool combinations; every non-bool form in every flag position (next to all 4 plain
    combinations of the other two when `full`, else next to one random combination); every combination with all three
    flags in the same form family (np.bool_ / int / float / str), all None, all omitted; random mixed triples."""
    forms = QUICK_FORMS + (MORE_FORMS if thorough else [])
    out = list(BOOL_TRIPLES)
    for j in range(3):
        for v in forms:
            others = [(a, b) for a in (False, True) for b in (False, True)]
            for a, b in (others if full else [rng.choice(others)]):
                t = [a, b]
                t.insert(j, v)
                out.append(tuple(t))
    for tv, fv in SAME_FORM_FAMILIES:
        combos = BOOL_TRIPLES if full else rng.sample(BOOL_TRIPLES, 3) + [(True, True, True), (True, True, False)]
        for c in combos:
            out.append(tuple(tv if x else fv for x in c))
    out += [(None, None, None), (OMIT, OMIT, OMIT)]
    allforms = [True, False] + forms
    for _ in range(n_random):
        out.append(tuple(rng.choice(allforms) for _ in range(3)))
    seen, uniq = set(), []
    for t in out:
        k = json.dumps([form_json(v) for v in t])
        if k not in seen:
            seen.add(k)
            uniq.append(t)
    return uniq


def flag_kwargs(triple, ua=OMIT):
    kw = {k: v for k, v in zip(FLAG_NAMES, triple) if v is not OMIT}
    if ua is not OMIT:
        kw['use_aliases'] = ua
    return kw


def tkey(triple):
    return json.dumps([form_json(v) for v in triple])


def canon_full(df):
    """Everything observable of an exported table: index, labels (a non-str label is told apart from its str),
    cells (floats by bits), dtypes."""
    if not isinstance(df, pd.DataFrame):
        return {'not-a-dataframe': type(df).__name__}
    try:
        cols, dtypes = [], []
        for c, ser in df.items():          # (by position: duplicate labels stay separate columns)
            cols.append([c if isinstance(c, str) else 'o:' + repr(c), toks(ser)])
            dtypes.append(str(ser.dtype))
        return {'index': [tok(x) for x in df.index], 'cols': cols, 'dtypes': dtypes,
                'labels': [type(x).__name__ for x in df.columns]}
    except Exception as e:  # noqa: BLE001
        return {'uncanonical': type(e).__name__}


def describe(c):
    if not isinstance(c, dict) or 'cols' not in c:
        return short(c)
    return f'columns {[x[0] for x in c["cols"]]}'


def gen_aliases(rng, names):
    """ALIASES for an alias-enabled class over variables `names`: 0-3 aliases (never the name of a variable, never
    status / iterations), targets incl. underscore-prefixed variables, sometimes chained, sometimes dangling;
    PREFERRED_NAMES for some."""
    names = [n for n in names if isinstance(n, str)]
    pool = [a for a in ['GDP', 'alias_1', '_al', 'A_x', 'Zq', 'cons', '_k9'] if a not in names]
    out = []
    targets = rng.sample(names, min(len(names), rng.choice([0, 1, 2, 3])))
    internal = [n for n in names if n.startswith('_')]
    if internal and rng.random() < 0.5 and internal[0] not in targets:
        targets.append(rng.choice(internal))
    for t in targets:
        if pool:
            out.append([pool.pop(rng.randrange(len(pool))), t])
    if out and pool and rng.random() < 0.3:
        out.append([pool.pop(), out[0][0]])                 # chained: alias -> alias -> variable
    if pool and rng.random() < 0.15:
        out.append([pool.pop(), 'Nowhere'])                  # dangling
    pref = []
    if out and rng.random() < 0.3:
        pref = [out[0][0]]
    return out, pref


def alias_targets(obj):
    """{variable name: set of labels `use_aliases=True` may give it} from the instance's resolved aliases."""
    out = {}
    for a, t in dict(vars(obj).get('aliases', {})).items():
        out.setdefault(t, set()).add(a)
    return out


class Family:
    """One recipe built once per class kind; exported tables cached per (kind, entry, use_aliases, flags)."""

    def __init__(self, rec):
        self.rec = {k: v for k, v in rec.items() if k not in ('mixin',)}
        self.objs, self.tabs = {}, {}

    def recipe(self, kind):
        return dict(self.rec, mixin=kind)

    def obj(self, kind):
        if kind not in self.objs:
            with warnings.catch_warnings():
                warnings.simplefilter('ignore')
                self.objs[kind] = build_instance(self.recipe(kind))
        return self.objs[kind][1]

    def cls(self, kind):
        self.obj(kind)
        return self.objs[kind][0]

    def export(self, kind, entry, ua, triple):
        """(DataFrame | None, exception | None), not cached."""
        m = self.obj(kind)
        kw = flag_kwargs(triple, ua)
        try:
            with np.errstate(all='ignore'), warnings.catch_warnings():
                warnings.simplefilter('ignore')
                if entry == 'method':
                    return m.to_dataframe(**kw), None
                return fsic.tools.model_to_dataframe(m, **kw), None
        except Exception as e:  # noqa: BLE001
            return None, e

    def table(self, kind, entry, ua, triple):
        k = (kind, entry, json.dumps(form_json(ua)), tkey(triple))
        if k not in self.tabs:
            df, exc = self.export(kind, entry, ua, triple)
            self.tabs[k] = (df, {'raises': type(exc).__name__} if exc is not None else canon_full(df))
        return self.tabs[k]


def blame_flags(table_of, triple, ref):
    """Which single flag's FORM changes the table: [(flag name, form)] (empty if only the combination does)."""
    out = []
    for j, v in enumerate(triple):
        if is_plain(v):
            continue
        single = tuple(v if k == j else plain_bool(x) for k, x in enumerate(triple))
        if table_of(single) != ref:
            out.append((FLAG_NAMES[j], form_name(v)))
    return out


def mixin_case(fam, kind, entry, ua, triple):
    return {'kind': 'mixin-table', 'recipe': fam.recipe(kind), 'entry': entry, 'flags': [form_json(v) for v in triple],
            'use_aliases': form_json(ua)}


def check_mixin_case(rep, fam, kind, entry, ua, triple, absolute=True):
    """All oracle checks of one export; returns (DataFrame | None, canon, case)."""
    case = mixin_case(fam, kind, entry, ua, triple)
    m = fam.obj(kind)
    df, tbl = fam.table(kind, entry, ua, triple)
    where = f'{kind} {entry} to_dataframe({", ".join(f"{k}={v!r}" for k, v in flag_kwargs(triple, ua).items())})'
    # (3) the FORM of the flags: the same object, every flag replaced by bool(flag)
    bools = tuple(plain_bool(v) for v in triple)
    if any(not is_plain(v) for v in triple):
        ref = fam.table(kind, entry, ua, bools)[1]
        if tbl != ref:
            blamed = blame_flags(lambda t: fam.table(kind, entry, ua, t)[1], triple, ref) or \
                [('combination', '+'.join(sorted({form_name(v) for v in triple if not is_plain(v)})))]
            for flag, form in blamed:
                violate(rep, f'df-flag-form:{form}:{flag}', f'{where}: {describe(tbl)}; with bool() of every flag '
                        f'({", ".join(map(repr, bools))}): {describe(ref)}', case)
    if not is_plain(ua):
        ref = fam.table(kind, entry, bool(ua), triple)[1]
        if tbl != ref:
            violate(rep, f'df-flag-form:{form_name(ua)}:use_aliases', f'{where}: {describe(tbl)}; with use_aliases={bool(ua)}: '
                    f'{describe(ref)}', case)
    # (2) the class: the plain class, same entry, same flags
    ua_on = ua is not OMIT and bool(ua)
    if kind != 'plain' or ua is not OMIT:
        ref = fam.table('plain', entry, OMIT, triple)[1]
        label = entry + ('' if ua is OMIT else f'+use_aliases={bool(ua)}')
        if not ua_on:
            if tbl != ref:
                violate(rep, f'df-mixin-export-differs:{kind}:{label}', f'{where}: {describe(tbl)}; the plain class (same recipe, '
                        f'same flags): {describe(ref)}', case)
        else:
            # labels only may differ: index, cells, dtypes as the plain class; every label the name or an alias of it
            strip = lambda c: c if 'cols' not in c else {'index': c['index'], 'cells': [x[1] for x in c['cols']], 'dtypes': c['dtypes']}   # noqa: E731
            if strip(tbl) != strip(ref):
                violate(rep, f'df-mixin-export-differs:{kind}:{label}', f'{where}: {describe(tbl)}; the plain class (same recipe, '
                        f'same flags): {describe(ref)} - more than the labels differ', case)
            elif 'cols' in tbl:
                al = alias_targets(m)
                for (got, _), (want, _) in zip(tbl['cols'], ref['cols']):
                    if got != want and got not in al.get(want, ()):
                        violate(rep, f'df-alias-label:{kind}', f'{where}: column of {want!r} is labelled {got!r}, its aliases '
                                f'are {sorted(al.get(want, ()))}', case)
    # (1) storage-level ground truth
    if absolute and not ua_on:
        if df is None:
            violate(rep, 'df-export-raises', f'{where} raised {tbl}', case)
        elif not isinstance(df, pd.DataFrame):
            violate(rep, 'df-not-a-dataframe', f'{where} returned {type(df).__name__}', case)
        else:
            n = truth_or_none(triple[2])
            oracle_table(m, df, (truth_or_none(triple[0]), truth_or_none(triple[1]), False if n is None else n), rep, case, where)
    return df, tbl, case


def count_forms(rep, kind, entry, ua, triple):
    forms = {form_name(v) for v in triple if not is_plain(v) or v is OMIT} or {'bool'}
    for f in forms:
        rep.dist[f'mixin|{kind}|{entry}|{f}'] += 1
    for name, v in zip(FLAG_NAMES, triple):
        rep.dist[f'flag-form:{name}:{form_name(v)}' + ('' if v is OMIT else ':truthy' if v else ':falsy')] += 1
    if ua is not OMIT:
        rep.dist[f'flag-form:use_aliases:{form_name(ua)}' + (':truthy' if ua else ':falsy')] += 1
        rep.dist[f'mixin|{kind}|{entry}+use_aliases|{form_name(ua)}'] += 1


UA_FORMS = [True, False, np.True_, np.False_, 1, 0, 1.0, 0.0, 'x', '', None]


def one_family(ctx, rep, rec, rng, items, ft_items, full):
    fam = Family(rec)
    kinds = class_kinds()
    try:
        plain = fam.obj('plain')
    except Exception as e:  # noqa: BLE001
        rep.dist['mixin-family-failed:' + type(e).__name__] += 1
        return
    if not names_ok(plain):
        rep.dist['names-guard-broken'] += 1
        return
    names = list(vars(plain)['names'])
    rep.dist['mixin-families'] += 1
    rep.dist['mixin-family:' + ('has-underscore-variable' if any(n.startswith('_') for n in names) else 'no-underscore-variable')] += 1
    rep.dist['mixin-family-span:' + rec['span'][0]] += 1
    nontrivial = bool(len(plain.span)) and bool(names)
    thorough = ctx.tier != 'quick'
    triples = form_triples(rng, full, thorough=thorough and full, n_random=16 if full else 8)
    if not full:
        # a light family: the plain class and three of the other kinds (every kind equally often over the run)
        others = [k for k in kinds if k != 'plain']
        rng.shuffle(others)
        kinds = ['plain'] + others[:3]
    for kind in kinds:
        try:
            m = fam.obj(kind)
        except Exception as e:  # noqa: BLE001
            violate(rep, f'mixin-class-unusable:{kind}', f'building the recipe with class kind {kind} raised {type(e).__name__}: '
                    f'{short(str(e), 200)}', {'kind': 'mixin-table', 'recipe': fam.recipe(kind), 'entry': 'method',
                                               'flags': [True, True, False], 'use_aliases': form_json(OMIT)})
            continue
        rep.dist['mixin-class:' + kind] += 1
        if 'tracer' in mro_of(kind) and 'trace' in vars(m)['index'] and 'trace' not in vars(m)['names']:
            rep.dist['tracer:trace-in-index-not-in-names'] += 1
        store = store_json(m, named_only=True)
        for entry in ('method', 'function'):
            for triple in triples:
                # absolute ground truth: always on the plain class, on the other classes for plain-bool flags and a sample
                absolute = kind == 'plain' or all(is_plain(v) for v in triple) or rng.random() < 0.25
                df, tbl, case = check_mixin_case(rep, fam, kind, entry, OMIT, triple, absolute=absolute)
                count_forms(rep, kind, entry, OMIT, triple)
                rep.case(json.dumps(case, sort_keys=True), nontrivial=nontrivial,
                         sample={'class': kind, 'mro': [c.__name__ for c in type(m).__mro__[:5]], 'entry': entry,
                                 'flags': case['flags'], 'columns': [x[0] for x in tbl.get('cols', [])]}
                         if rep.evaluations % 2999 == 0 else None)
                items.append((store, case['flags'], mro_of(kind) if entry == 'method' else None, None, tbl, case))
        if 'alias' in mro_of(kind):
            sub = BOOL_TRIPLES + rng.sample(triples, min(len(triples), 10 if full else 4))
            for triple in sub:
                for ua in (UA_FORMS if full else rng.sample(UA_FORMS, 5) + [True]):
                    df, tbl, case = check_mixin_case(rep, fam, kind, 'method', ua, triple)
                    count_forms(rep, kind, 'method', ua, triple)
                    rep.case(json.dumps(case, sort_keys=True), nontrivial=nontrivial)
                    items.append((store, case['flags'], mro_of(kind), form_json(ua), tbl, case))
    # import: strict= in every form, on the plain and an alias-enabled class
    for kind in [k for k in ('plain', 'alias') if k in kinds]:
        strict_forms(ctx, rep, fam, kind, ft_items, rng, full)


def check_mixin_tables(ctx, rep, items):
    """items: (store, flags as forms, mro | None, use_aliases form | None, impl canon, case): `classExport` (wrappers of
    the MRO, `truthy` of every flag) against the real table.  With truthy use_aliases the labels are not compared."""
    if ctx.oracle_only or not items:
        return
    lines = []
    for store, flags, mro, ua, impl, case in items:
        req = {'store': store, 'status': flags[0], 'iterations': flags[1], 'include_internal': flags[2]}
        if mro is not None:
            req['mro'] = mro
        if ua is not None:
            req['use_aliases'] = ua
        lines.append('tools_columns\t' + json.dumps(req))
    outs = ctx.drive(lines)
    for (store, flags, mro, ua, impl, case), o in zip(items, outs):
        model = json.loads(o) if not o.startswith('!') else o
        if isinstance(model, str) or 'cols' not in impl:
            same = False
        elif ua is not None and form_value(ua) is not OMIT and bool(form_value(ua)):
            same = model['index'] == impl['index'] and [c[1] for c in model['cols']] == [c[1] for c in impl['cols']]
        else:
            same = split_special(model) == split_special({'index': impl['index'], 'cols': impl['cols']})
        if not same:
            rep.disagree('mixin / flag-form export: model != impl', case, model, impl)


# ---- from_dataframe(..., strict=<form>)

def fd_outcome(M, df, strict):
    kw = {} if strict is OMIT else {'strict': strict}
    try:
        with warnings.catch_warnings():
            warnings.simplefilter('ignore')
            m2 = M.from_dataframe(df, **kw)
    except Exception as e:  # noqa: BLE001
        return None, e, {'raises': type(e).__name__}
    try:
        out = {'span': [tok(x) for x in m2.span], 'names': list(m2.names), 'strict': bool(m2.strict),
               'dict': sorted([k, toks(v)] for k, v in vars(m2).items() if isinstance(k, str) and k.startswith('_')
                              and isinstance(v, np.ndarray) and v.ndim == 1 and v.dtype.kind != 'O')}
    except Exception as e:  # noqa: BLE001
        out = {'unreadable': type(e).__name__}
    return m2, None, out


STRICT_FORMS = [True, False, np.True_, np.False_, 1, 0, 1.0, 0.0, 'x', '', None, OMIT]


def strict_forms(ctx, rep, fam, kind, ft_items, rng, full):
    """`M.from_dataframe(table, strict=<form>)` on the table of the class variables (must reproduce span and values in
    EVERY form) and on the same table with a column that is no variable (raises when truthy): the outcome must be the
    one for `bool(strict)`."""
    m, M = fam.obj(kind), fam.cls(kind)
    try:
        base = m.to_dataframe(status=False, iterations=False, include_internal=True)
        base = base[[c for c in base.columns if c in M.NAMES and c not in ctor_params()]]
    except Exception:  # noqa: BLE001
        rep.dist['strict-forms-skipped:export-failed'] += 1
        return
    if any(base[c].dtype.kind not in 'fiub' for c in base.columns):
        return
    for variant in ('class-variables', 'extra-column'):
        df = base if variant == 'class-variables' else base.assign(Zz_extra=1.5)
        outs = {}
        forms = STRICT_FORMS if full else [True, False, OMIT] + rng.sample(STRICT_FORMS[2:-1], 4)
        for v in forms:
            outs[json.dumps(form_json(v))] = (v,) + fd_outcome(M, df, v)
        for k, (v, m2, exc, out) in outs.items():
            case = {'kind': 'strict-form', 'recipe': fam.recipe(kind), 'variant': variant, 'strict': form_json(v)}
            rep.dist[f'strict-form:{kind}:{variant}:{form_name(v)}' + ('' if v is OMIT else ':truthy' if v else ':falsy')] += 1
            rep.case(json.dumps(case, sort_keys=True), nontrivial=bool(len(m.span)) and bool(len(base.columns)))
            if not is_plain(v):
                ref = outs.get(json.dumps(form_json(bool(v)))) or ((bool(v),) + fd_outcome(M, df, bool(v)))
                if out != ref[3]:
                    violate(rep, f'fd-flag-form:{form_name(v)}:strict', f'{kind} from_dataframe({variant}, strict={v!r}): '
                            f'{short(out, 200)}; with strict={bool(v)}: {short(ref[3], 200)}', case)
            if variant == 'class-variables':
                oracle_from_dataframe(M, m, df, m2, exc, rep, case, f'{kind} from_dataframe({variant}, strict={v!r})')
            if kind == 'plain':
                impl = 'raises' if m2 is None else {'span': out.get('span'), 'names': out.get('names'), 'dict': out.get('dict')}
                ft_items.append((canon_or_none(df), list(M.NAMES), tok(0.0), impl, case, form_json(v)))


# ---- linkers whose submodels (and which themselves) are mixin classes

LINKER_ENTRIES = ('to_dataframes:method', 'to_dataframes:function', 'core:method', 'core:function')


class LinkerFamily:
    """One linker recipe built once per variant = (linker kind, (submodel kind, ...))."""

    def __init__(self, lrec):
        self.lrec = lrec
        self.objs, self.tabs = {}, {}

    def recipe(self, variant):
        lk, sks = variant
        return dict(self.lrec, mixin=lk, subs=[[k, dict(r, mixin=sk)] for (k, r), sk in zip(self.lrec['subs'], sks)])

    def obj(self, variant):
        key = json.dumps(variant)
        if key not in self.objs:
            with warnings.catch_warnings():
                warnings.simplefilter('ignore')
                self.objs[key] = build_linker(self.recipe(variant))
        return self.objs[key]

    def export(self, variant, entry, triple, ua=OMIT):
        l = self.obj(variant)
        kw = flag_kwargs(triple, ua)
        try:
            with np.errstate(all='ignore'), warnings.catch_warnings():
                warnings.simplefilter('ignore')
                if entry == 'to_dataframes:method':
                    return l.to_dataframes(**kw), None
                if entry == 'to_dataframes:function':
                    return fsic.tools.linker_to_dataframes(l, **kw), None
                if entry == 'core:method':
                    return l.to_dataframe(**kw), None
                return fsic.tools.model_to_dataframe(l, **kw), None
        except Exception as e:  # noqa: BLE001
            return None, e

    def table(self, variant, entry, triple, ua=OMIT):
        k = (json.dumps(variant), entry, tkey(triple), json.dumps(form_json(ua)))
        if k not in self.tabs:
            d, exc = self.export(variant, entry, triple, ua)
            if exc is not None:
                c = {'raises': type(exc).__name__}
            elif entry.startswith('core'):
                c = canon_full(d)
            elif isinstance(d, dict):
                c = {'tables': sorted(([ktok(key), canon_full(v)] for key, v in d.items()), key=lambda p: p[0])}
            else:
                c = {'not-a-dict': type(d).__name__}
            self.tabs[k] = (d, c)
        return self.tabs[k]


def linker_diff_owner(l, variant, a, b):
    """Which table of the two linker exports differs: 'linker:<kind>' | 'submodel:<kind>' | 'keys'."""
    if 'tables' not in a or 'tables' not in b:
        return 'linker:' + variant[0]
    da, db = dict(map(tuple, [(k, json.dumps(v)) for k, v in a['tables']])), dict(map(tuple, [(k, json.dumps(v)) for k, v in b['tables']]))
    if set(da) != set(db):
        return 'keys'
    kinds = {ktok(k): sk for k, sk in zip(l.submodels.keys(), variant[1])}
    for k in da:
        if da[k] != db[k]:
            return ('submodel:' + kinds[k]) if k in kinds and k != ktok(l.name) else 'linker:' + variant[0]
    return 'linker:' + variant[0]


def check_linker_case(rep, fam, variant, entry, triple, ua=OMIT, absolute=True):
    plainv = ['plain', ['plain'] * len(variant[1])]
    case = {'kind': 'mixin-linker', 'lrecipe': fam.recipe(variant), 'variant': variant, 'entry': entry,
            'flags': [form_json(v) for v in triple], 'use_aliases': form_json(ua)}
    l = fam.obj(variant)
    d, tbl = fam.table(variant, entry, triple, ua)
    vname = f'linker[{variant[0]}] of submodels {variant[1]}'
    where = f'{vname} {entry}({", ".join(f"{k}={v!r}" for k, v in flag_kwargs(triple, ua).items())})'
    bools = tuple(plain_bool(v) for v in triple)
    if any(not is_plain(v) for v in triple):
        ref = fam.table(variant, entry, bools, ua)[1]
        if tbl != ref:
            blamed = blame_flags(lambda t: fam.table(variant, entry, t, ua)[1], triple, ref) or \
                [('combination', '+'.join(sorted({form_name(v) for v in triple if not is_plain(v)})))]
            for flag, form in blamed:
                violate(rep, f'df-flag-form:{form}:{flag}', f'{where}: {short(describe_l(tbl), 300)}; with bool() of every flag: '
                        f'{short(describe_l(ref), 300)}', case)
    if not is_plain(ua):
        ref = fam.table(variant, entry, triple, bool(ua))[1]
        if tbl != ref:
            violate(rep, f'df-flag-form:{form_name(ua)}:use_aliases', f'{where}: differs from use_aliases={bool(ua)}', case)
    ua_on = ua is not OMIT and bool(ua)
    if (variant != plainv or ua is not OMIT) and not ua_on:
        ref = fam.table(plainv, entry, triple)[1]
        if tbl != ref:
            owner = linker_diff_owner(l, variant, tbl, ref)
            violate(rep, f'df-mixin-export-differs:{owner}:{entry}', f'{where}: {short(describe_l(tbl), 300)}; all classes plain '
                    f'(same recipe, same flags): {short(describe_l(ref), 300)}', case)
    if absolute and not ua_on:
        n = truth_or_none(triple[2])
        flags = (truth_or_none(triple[0]), truth_or_none(triple[1]), False if n is None else n)
        if d is None:
            violate(rep, 'linker-export-raises' if entry.startswith('to_dataframes') else 'df-export-raises', f'{where} raised {tbl}', case)
        elif entry.startswith('core'):
            if isinstance(d, pd.DataFrame):
                oracle_table(l, d, flags, rep, case, where)
            else:
                violate(rep, 'df-not-a-dataframe', f'{where} returned {type(d).__name__}', case)
        else:
            rep.dist['linker:' + oracle_linker_flags(l, flags, d, rep, case, where)] += 1
    return d, tbl, case


def describe_l(c):
    if 'tables' in c:
        return {k: describe(t) for k, t in c['tables']}
    return describe(c)


def oracle_linker_flags(l, flags, d, rep, case, where):
    """`oracle_linker` for flags whose status / iterations may be None (= omitted)."""
    subkeys = list(l.submodels.keys())
    if any(same_label(l.name, k) for k in subkeys):
        return 'name-collision'
    if not isinstance(d, dict) or len(d) != len(subkeys) + 1 or set(map(ktok, d.keys())) != set(map(ktok, subkeys + [l.name])):
        violate(rep, 'linker-tables-keys', f'{where}: keys {list(d.keys()) if isinstance(d, dict) else type(d)}, '
                    f'submodels {subkeys}, linker {l.name!r}', case)
        return 'bad-keys'
    oracle_table(l, d[l.name], flags, rep, case, f'{where}: linker table {l.name!r}')
    for k in subkeys:
        oracle_table(l.submodels[k], d[k], flags, rep, case, f'{where}: submodel table {k!r}')
    return 'ok'


def linker_variants(rng, nsub, full):
    kinds = class_kinds()
    out = [['plain', ['plain'] * nsub]]
    for k in kinds:
        if k != 'plain':
            out.append(['plain', [k] * nsub])
    if 'alias' in kinds:
        out.append(['alias', ['alias'] * nsub])
        out.append(['alias', ['plain'] * nsub])
    for _ in range(3 if full else 1):
        out.append([rng.choice(LINKER_KINDS if 'alias' in kinds else ['plain']), [rng.choice(kinds) for _ in range(nsub)]])
    seen, uniq = set(), []
    for v in out:
        if json.dumps(v) not in seen:
            seen.add(json.dumps(v))
            uniq.append(v)
    return uniq


def one_linker_family(ctx, rep, lrec, rng, litems, full):
    fam = LinkerFamily(lrec)
    nsub = len(lrec['subs'])
    plainv = ['plain', ['plain'] * nsub]
    try:
        lp = fam.obj(plainv)
    except Exception as e:  # noqa: BLE001
        rep.dist['mixin-linker-failed:' + type(e).__name__] += 1
        return
    if not names_ok(lp) or not all(names_ok(x) for x in lp.submodels.values()):
        rep.dist['names-guard-broken'] += 1
        return
    rep.dist['mixin-linker-families'] += 1
    rep.dist['mixin-linker-submodels:%d' % nsub] += 1
    if any(n.startswith('_') for x in lp.submodels.values() for n in vars(x)['names']):
        rep.dist['mixin-linker:submodel-has-underscore-variable'] += 1
    if any(n.startswith('_') for n in vars(lp)['names']):
        rep.dist['mixin-linker:core-has-underscore-variable'] += 1
    triples = form_triples(rng, False, n_random=6 if full else 3)
    if not full:
        triples = BOOL_TRIPLES + rng.sample(triples[8:], min(len(triples) - 8, 22))
    for variant in linker_variants(rng, nsub, full):
        try:
            l = fam.obj(variant)
        except Exception as e:  # noqa: BLE001
            violate(rep, f'mixin-class-unusable:linker[{variant[0]}]', f'building the linker variant {variant} raised '
                    f'{type(e).__name__}: {short(str(e), 200)}',
                    {'kind': 'mixin-linker', 'lrecipe': fam.recipe(variant), 'variant': variant, 'entry': 'core:method',
                     'flags': [True, True, False], 'use_aliases': form_json(OMIT)})
            continue
        rep.dist['mixin-linker-class:' + variant[0]] += 1
        for sk in set(variant[1]):
            rep.dist['mixin-linker-submodel-class:' + sk] += 1
        lstore = store_json(l, named_only=True)
        sstores = [[ktok(k), store_json(x, named_only=True)] for k, x in l.submodels.items()]
        for entry in LINKER_ENTRIES:
            for triple in triples:
                absolute = variant == plainv or all(is_plain(v) for v in triple) or rng.random() < 0.25
                d, tbl, case = check_linker_case(rep, fam, variant, entry, triple, absolute=absolute)
                vk = f'linker[{variant[0]}]/sub[{"+".join(sorted(set(variant[1]))) or "none"}]'
                for f in ({form_name(v) for v in triple if not is_plain(v) or v is OMIT} or {'bool'}):
                    rep.dist[f'mixin|{vk}|{entry}|{f}'] += 1
                rep.case(json.dumps(case, sort_keys=True, default=str), nontrivial=bool(nsub))
                if entry.startswith('to_dataframes') and 'tables' in tbl:
                    impl = [[k, list(split_special({'index': t['index'], 'cols': t['cols']}))] if 'cols' in t else [k, t]
                            for k, t in tbl['tables']]
                    litems.append((ktok(l.name), lstore, sstores, case['flags'], impl, case))
        if variant[0] == 'alias':
            for triple in BOOL_TRIPLES[::3] + rng.sample(triples, 2):
                for ua in rng.sample(UA_FORMS, 4) + [False]:
                    d, tbl, case = check_linker_case(rep, fam, variant, 'core:method', triple, ua=ua)
                    rep.dist[f'mixin|linker[alias]|core:method+use_aliases|{form_name(ua)}'] += 1
                    rep.case(json.dumps(case, sort_keys=True, default=str), nontrivial=True)


def gen_mixin_recipe(rng):
    """A model recipe for the mixin families: always at least one underscore-prefixed variable (declared by a
    hand-written class or added at run time), aliases for the alias-enabled kinds."""
    if rng.random() < 0.45:
        host = rng.choice(['class', 'class', 'runtime'])
        names = gen_names(rng, host)
        if not any(n.startswith('_') for n in names):
            names.insert(rng.randint(0, len(names)), rng.choice(['_hid', '_q', '__p']))
        if host == 'class' and names[0].startswith('_') and rng.random() < 0.7:
            names.append(names.pop(0))
        rec = gen_named_recipe(rng, host, [n for n in names if n not in ('aliases', 'preferred_names', 'trace')])
        allnames = list(rec.get('class_names', [])) or (['Y', 'X'] + [e[0] for e in rec['extras']])
    else:
        M = None
        for _ in range(20):
            script = gen_script(rng) if rng.random() < 0.9 else rng.choice(CATALOGUE)
            try:
                with warnings.catch_warnings():
                    warnings.simplefilter('ignore')
                    M = model_class(script)
                break
            except Exception:  # noqa: BLE001
                continue
        if M is None:
            script, M = 'Y = X', model_class('Y = X')
        rec = gen_recipe(rng, script, list(M.NAMES))
        taken = {e[0] for e in rec['extras']} | set(M.NAMES)
        if not any(n.startswith('_') for n in taken):
            nm = rng.choice(['_hid', '_', '__p', '_X1', '_9'])
            dt = rng.choice(['float', 'int', 'bool', 'str'])
            vals = uniq_vals(nm, 30, rec['span'][1], dt) if rec.get('uniq') and dt != 'bool' else None
            rec['extras'].insert(rng.randint(0, len(rec['extras'])),
                                 [nm, dt, {'scalar': False, 'vals': vals} if vals is not None else gen_extra_values(rng, dt, rec['span'][1])])
        rec['extras'] = [e for e in rec['extras'] if e[0] not in ('aliases', 'preferred_names', 'trace')]
        allnames = list(M.NAMES) + [e[0] for e in rec['extras']]
    rec['aliases'], rec['preferred'] = gen_aliases(rng, allnames)
    if rec['solve'] and rng.random() < 0.5:
        rec['solve']['trace'] = True
    return rec


def run_mixins(ctx, rep, n_full, n_light, n_linkers):
    rng = ctx.sub_rng('mixins')
    t0 = time.time()
    for k, cls in mixins().items():
        rep.dist[f'mixin-importable:{k}:{"yes" if cls is not None else "no"}'] = 1
    items, ft_items, litems = [], [], []
    for j in range(n_full + n_light):
        rec = gen_mixin_recipe(rng)
        one_family(ctx, rep, rec, rng, items, ft_items, full=j < n_full)
        if len(items) > 6000:
            check_mixin_tables(ctx, rep, items)
            items = []
    check_mixin_tables(ctx, rep, items)
    check_from_table(ctx, rep, ft_items)
    rep.dist['worker-seconds-summed:mixin-families'] += int(time.time() - t0)
    for j in range(n_linkers):
        kind = rng.choice(['range', 'liststr', 'listint', 'mixed'])
        n, o = rng.choice([1, 2, 3, 4]), rng.randint(0, 3)
        subs = []
        for key in rng.sample(SUB_KEYS, rng.choice([1, 1, 2, 3])):
            r = gen_mixin_recipe(rng)
            r['span'] = [kind, n, o]
            r['edits'] = [e for e in r['edits'] if e[0] < n]
            names = r.get('class_names') or list(model_class(r['script']).NAMES)
            if r.get('uniq'):
                for jj, v in enumerate(names):
                    tgt = r['poke'] if v in r.get('poke', {}) else r['init']
                    if v in tgt:
                        tgt[v] = [bits(x) for x in uniq_vals(v, jj, n, 'float')]
                for jj, e in enumerate(r['extras']):
                    e[2] = {'scalar': False, 'vals': uniq_vals(e[0], len(names) + jj, n, e[1])}
            else:
                r['init'] = {}
                for e in r['extras']:
                    e[2] = gen_extra_values(rng, e[1], n)
            subs.append([key, r])
        own = rng.choice(OWN_CHOICES)
        lrec = gen_named_linker_recipe(rng, own, [x for x in rng.sample(['_w', 'Ww', '_'], rng.choice([0, 1])) if x not in own],
                                       subs, n, kind, o, name=rng.choice([x for x in LINKER_NAMES if x not in [k for k, _ in subs]]))
        lrec['solve'] = rng.random() < 0.3
        lnames = list(own) + [e[0] for e in lrec['extras']]
        lrec['aliases'], lrec['preferred'] = gen_aliases(rng, lnames) if lnames else ([['GDP', 'Nowhere']], [])
        one_linker_family(ctx, rep, lrec, rng, litems, full=ctx.tier != 'quick')
        if len(litems) > 3000:
            check_linkers(ctx, rep, litems)
            litems = []
    check_linkers(ctx, rep, litems)


def symbol_lists(rng, scripts, n_sub, built=()):
    """[(symbol list, origin, in_quantifier)]: parser outputs (in the property's quantifier: oracle + comparison),
    hand-built lists with edge whitespace / '' in the str fields (`built`: the neighbourhood of the parser's output,
    oracle + comparison) and contiguous sub-lists / reversals of parser outputs (comparison only — the theorem covers
    them)."""
    out = []
    seen = set()
    for script in list(CATALOGUE) + list(scripts):
        try:
            with warnings.catch_warnings():
                warnings.simplefilter('ignore')
                ss = fsic.parse_model(script)
        except Exception:  # noqa: BLE001
            continue
        key = repr(ss)
        if key in seen:
            continue
        seen.add(key)
        out.append((ss, {'kind': 'symbols', 'script': script}, True))
    parsed = [x for x in out if len(x[0]) >= 2]
    for _ in range(n_sub):
        ss, origin, _ = rng.choice(parsed)
        i = rng.randrange(len(ss))
        j = rng.randint(i + 1, len(ss))
        sub = ss[i:j]
        if rng.random() < 0.3:
            sub = list(reversed(sub))
        key = repr(sub)
        if key in seen:
            continue
        seen.add(key)
        out.append((sub, {'kind': 'symbols-sub', 'script': origin['script'], 'slice': [i, j], 'symbols': sym_in(sub)}, False))
    for ss, tag in built:
        key = repr(ss)
        if key in seen:
            continue
        seen.add(key)
        out.append((ss, {'kind': 'symbols-built', 'origin': tag, 'symbols': sym_in(ss)}, True))
    return out


def symbols_shape(ss):
    """Which columns mix present and missing entries / are entirely missing (what pandas' coercion depends on)."""
    out = []
    for f in ('name', 'lags', 'leads', 'equation', 'code'):
        miss = sum(getattr(s, f) is None for s in ss)
        if miss and miss < len(ss):
            out.append(f + ':mixed')
        elif miss:
            out.append(f + ':all-missing')
    return out

# ---- symbol lists whose str fields carry edge whitespace / are '' ---------------------------------------------------

# bodies of fenced verbatim blocks (the parser builds `code = equation.strip('`\r\n')`: blanks and tabs at the edges of
# the body, whitespace-only first / last lines and a whitespace-only body all survive; a body of newlines only gives '')
EDGE_BODIES = ['x = 1  ', 'x = 1\t', 'x = 1 \t ', '   \nx = 1', '\t\nx = 1', 'x = 1\n   ', 'x = 1\n\t', '  ', '\t', ' \t ',
               '', '\n', ' \n ', ' \n\t\nz = 2\n \n ', 'x = 1 \r', 'x = 1\t\r\n', 'if x:\n    y = 1\n  ', 'q = [1,\n     2] ',
               'x = 1\n\n  ', 'import math ', 'pass\t', '  x = 1', '\tx = 1', ' x = 1 ', 'x = 1\x0c ', 'x = 1 # c  ']
EDGE_FENCES = ['```', '````', '``` ', '```\t']          # an opening fence with trailing blanks leaves them in `code`
EDGE_TAILS = [' ', '  ', '\t', ' \t', ' \r']             # appended to an equation line (kept as ONE trailing blank)
# strings for hand-built symbols: each in each str field
EDGE_ALPHABET = ['x', ' x', 'x ', '\tx', 'x\t', 'x\n', '\nx', ' ', '', '\n', '\t', 'a b', ' x ', 'x\r\n', '\r', ' \n\t ',
                 'x  ', '```\nz = 1 \n```', 'nan', 'None', '\x0b', '\u2003x\u00a0', 'x\x00']
EDGE_SMALL = ['x', ' x', 'x ', '\tx', 'x\n', ' ', '', '\n', 'a b']
STR_FIELDS = ('name', 'equation', 'code')


def edge_kinds(ss):
    """{'field:position:char'} for every str field of the list that is '' or starts / ends with whitespace."""
    out = set()
    names = {' ': 'space', '\t': 'tab', '\n': 'nl', '\r': 'cr'}
    for sym in ss:
        for f in STR_FIELDS:
            v = getattr(sym, f)
            if not isinstance(v, str):
                continue
            if v == '':
                out.add(f + ':empty')
            elif v.strip() == '':
                out.add(f + ':ws-only:' + '+'.join(sorted({names.get(ch, 'other') for ch in v})))
            else:
                if v != v.lstrip():
                    out.add(f + ':leading:' + names.get(v[0], 'other'))
                if v != v.rstrip():
                    out.add(f + ':trailing:' + names.get(v[-1], 'other'))
    return out


def edge_scripts(rng, n_random):
    """Scripts whose parser output may carry edge whitespace: every EDGE_BODY in a fenced block (alone, between
    equations, with CRLF line ends, after a fence with trailing blanks), equations with trailing blanks, and random
    scripts decorated with both."""
    out = []
    for b in EDGE_BODIES:
        for fence in EDGE_FENCES:
            block = f'{fence}\n{b}\n{fence.strip()}'
            out.append(block)
            if fence == '```':
                out.append('Y = X\n' + block + '\nZ = Y[-1]')
                out.append(block.replace('\n', '\r\n'))
                out.append(block + '\n' + block)
                out.append('```\nz = 1\n```\n' + block)
    for t in EDGE_TAILS:
        out += ['Y = X' + t, 'Y = C + I' + t + '\nC = 0.5 * Y[-1]', 'Y = (C +\n     I)' + t, 'Y = exp(X)' + t + '\n```\npass \n```',
                'Y = X' + t + '\r\nZ = Y' + t]
    for _ in range(n_random):
        lines = gen_script(rng).split('\n')
        deco = []
        in_block = False
        for ln in lines:
            if ln.startswith('```'):
                in_block = not in_block
            elif in_block:
                if rng.random() < 0.6:
                    ln = rng.choice(EDGE_BODIES[:21])
            elif ln and not ln.startswith(' ') and not ln.endswith('+') and ln.count('(') == ln.count(')') and rng.random() < 0.4:
                ln = ln + rng.choice(EDGE_TAILS)
            deco.append(ln)
        for _ in range(rng.choice([0, 1, 1, 2])):
            deco.insert(rng.randint(0, len(deco)) if not in_block else len(deco),
                        '```\n' + rng.choice(EDGE_BODIES[:21]) + '\n```')
        out.append(rng.choice(['\n', '\n', '\r\n']).join('\n'.join(deco).split('\n')))
    return out


def _sym(template, **kw):
    d = dict(template)
    d.update(kw)
    return Symbol(**d)


EDGE_TEMPLATES = {
    'verbatim': dict(name=None, type=Type.VERBATIM, lags=None, leads=None, equation='```\nz = 1\n```', code='z = 1'),
    'endogenous': dict(name='Y', type=Type.ENDOGENOUS, lags=-1, leads=0, equation='Y[t] = Y[t-1]', code='self._Y[t] = self._Y[t-1]'),
    'function': dict(name='exp', type=Type.FUNCTION, lags=None, leads=None, equation=None, code=None),
}


def built_edge_lists(rng, n_random):
    """Hand-built symbol lists (the neighbourhood of the parser's output): every string of EDGE_ALPHABET in every str
    field of a verbatim / endogenous / function symbol, alone, next to rows where that field is None (mixed column,
    either order), next to another str, duplicated, and with the OTHER str fields None (all-missing columns);
    every ordered pair of EDGE_SMALL in one column; random lists with every str field drawn from the alphabet or None."""
    out = []
    for tname, tpl in EDGE_TEMPLATES.items():
        for f in STR_FIELDS:
            for k, a in enumerate(EDGE_ALPHABET):
                other = EDGE_ALPHABET[(k + 5) % len(EDGE_ALPHABET)]
                for bare_others in (False, True):
                    base = dict(tpl)
                    if bare_others:
                        for g in STR_FIELDS:
                            if g != f:
                                base[g] = None
                    S = _sym(base, **{f: a})
                    N = _sym(base, **{f: None})
                    T = _sym(base, **{f: other})
                    for shape, ss in (('alone', [S]), ('then-none', [S, N]), ('none-then', [N, S]), ('then-str', [S, T]),
                                      ('none-both-sides', [N, S, N]), ('twice', [S, S])):
                        out.append((ss, f'built:{tname}:{f}:{shape}' + (':others-none' if bare_others else '')))
    for f in STR_FIELDS:
        for a in EDGE_SMALL:
            for b in EDGE_SMALL:
                tpl = EDGE_TEMPLATES['verbatim' if f != 'name' else 'endogenous']
                out.append(([_sym(tpl, **{f: a}), _sym(tpl, **{f: b})], f'built:pair:{f}'))
    pool = EDGE_ALPHABET + [None] * 6
    for _ in range(n_random):
        ss = []
        for _ in range(rng.choice([1, 2, 2, 3, 4, 6])):
            t = rng.choice([Type.VERBATIM, Type.ENDOGENOUS, Type.EXOGENOUS, Type.FUNCTION, Type.KEYWORD, Type.PARAMETER])
            ss.append(Symbol(name=rng.choice(pool), type=t, lags=rng.choice([None, None, 0, -1, -3]),
                             leads=rng.choice([None, None, 0, 2]), equation=rng.choice(pool), code=rng.choice(pool)))
        out.append((ss, 'built:random'))
    return out


def run_symbols(ctx, rep, scripts, n_sub, n_edge_scripts=0, n_built=0):
    rng = ctx.sub_rng('symbols')
    erng = ctx.sub_rng('symbols-edge')
    escripts = edge_scripts(erng, n_edge_scripts)
    lists = symbol_lists(rng, list(scripts) + escripts, n_sub, built_edge_lists(erng, n_built))
    rep.dist['symbols-edge:scripts-tried'] += len(escripts)
    rows = []
    for ss, case, in_q in lists:
        back, exc = symbol_round_trip(ss)
        if in_q:
            r = oracle_symbols(ss, back, exc, rep, case)
            rep.dist['symbols:' + ('ok' if r == 'ok' else r)] += 1
        origin = {'symbols': 'parser', 'symbols-built': 'built', 'symbols-sub': 'sub'}[case['kind']]
        ek = edge_kinds(ss)
        if ek:
            # only lists that really carry '' / edge whitespace in a str field are counted here
            rep.dist[f'symbols-edge:{origin}:lists'] += 1
            for k in ek:
                rep.dist[f'symbols-edge:{origin}:{k}'] += 1
        if origin == 'built':
            rep.dist['symbols-built:' + case['origin'].split(':')[1]] += 1
        kinds = {int(s.type) for s in ss}
        for t in kinds:
            rep.dist['symbol-type:%d' % t] += 1
        for sh in symbols_shape(ss):
            rep.dist['symbols-column:' + sh] += 1
        rep.case(repr(ss), nontrivial=bool(ss),
                 sample={'script': case.get('script', case.get('origin')), 'n': len(ss), 'back': repr(back)[:200]}
                 if rep.evaluations % 211 == 0 else None)
        if exc is not None:
            impl = 'raises'
        elif isinstance(back, list) and all(isinstance(b, Symbol) for b in back):
            impl = sym_out(back)
        else:
            impl = 'o:' + type(back).__name__
        rows.append((ss, case, impl))
    if ctx.oracle_only or not rows:
        return
    outs = ctx.drive(['tools_symbols\t' + json.dumps({'symbols': sym_in(ss)}) for ss, _, _ in rows])
    for (ss, case, impl), o in zip(rows, outs):
        model = json.loads(o)['decoded'] if not o.startswith('!') else o
        # strict, three ways: real output == model output == original list
        if impl != model:
            rep.disagree('symbols round trip: model != impl', case, model, impl)
        elif model != conforming(ss):
            rep.disagree('symbols round trip: model (= impl) != original list', case, model, conforming(ss))


PROBE_SPANS = [[1, None, 2], [None, 'a']]
KNOWN_ALIAS_SHADOW = 'df-alias-shadows-variable'


def probe_alias_shadow(rep, verbose=False):
    """An alias-enabled class whose ALIASES maps the NAME OF A VARIABLE to another variable (`{'X': 'Y'}`, X and Y both
    variables): `model['X']` resolves to Y, so the export's column X holds Y's series, not the stored series of X."""
    if mixins().get('alias') is None:
        return
    case = {'kind': 'probe-alias-shadow'}
    M = mixin_class(model_class('Y = X + Z'), 'alias', [['X', 'Y']])
    m = M(range(3), Y=[1.0, 2.0, 3.0], Z=[4.0, 5.0, 6.0])
    vars(m)['_X'][:] = [7.0, 8.0, 9.0]
    for entry, df in (('method', m.to_dataframe(status=False, iterations=False)),
                      ('function', fsic.tools.model_to_dataframe(m, status=False, iterations=False))):
        got, stored = toks(df['X']), toks(vars(m)['_X'])
        if verbose:
            print(df)
            print('  stored X:', vars(m)['_X'].tolist())
        if got != stored:
            violate(rep, KNOWN_ALIAS_SHADOW, f"{entry}: class with ALIASES = {{'X': 'Y'}} over variables Y, X, Z: column 'X' holds "
                    f"{df['X'].tolist()} (= Y), the stored series of X is {vars(m)['_X'].tolist()}", case)
        rep.case(json.dumps([case, entry]), nontrivial=True)


def run_probes(ctx, rep):
    """Fixed oracle-only probes of behaviours outside the model."""
    M = model_class('Y = X')
    # a variable called status / iterations cannot exist (guard of dataframe_columns)
    for nm in ('status', 'iterations'):
        m = M(range(2))
        try:
            m.add_variable(nm, 0.0)
            rep.dist['guard:add_variable(%s) accepted' % nm] += 1
            rep.notes.append(f'add_variable({nm!r}) did not raise: the NamesOk guard is no longer enforced by the code')
        except Exception:  # noqa: BLE001
            rep.dist['guard:add_variable(%s) rejected' % nm] += 1
    # spans pandas cannot hold as they are (outside the model: oracle only)
    for sp in PROBE_SPANS:
        case = {'kind': 'probe-span', 'script': 'Y = X', 'span': sp}
        m = M(list(sp))
        oracle_table(m, m.to_dataframe(), (True, True, False), rep, case, f'to_dataframe() of a model with span {sp!r}')
        rep.case(json.dumps(case), nontrivial=True)
    # plain containers
    for k in range(3):
        c = VectorContainer(make_span(SPAN_KINDS[k * 4], 3, k))
        c.add_variable('B', [True, False, True])
        c.add_variable('_n', [1, 2, 3], dtype=np.int32)
        c.add_variable('F', 0.5)
        case = {'kind': 'probe-container', 'k': k}
        df = c.to_dataframe()
        oracle_container(c, df, rep, case, 'VectorContainer.to_dataframe')
        rep.case(json.dumps(case), nontrivial=True)
        if not ctx.oracle_only:
            check_tables(ctx, rep, [('VectorContainer.to_dataframe (plain container)', store_json(c), None,
                                     table_canon(df), case)])
    probe_alias_shadow(rep)
    # empty symbol list
    back, exc = symbol_round_trip([])
    oracle_symbols([], back, exc, rep, {'kind': 'symbols', 'script': ''})
    rep.case('symbols:[]', nontrivial=False)


N_MAIN = {'quick': 4, 'thorough': 8}        # workers of the models / linkers / name-pool stages
N_MIX = {'quick': 6, 'thorough': 8}         # workers of the mixin x entry point x flag-form stage
N_PARTS = {t: N_MAIN[t] + N_MIX[t] for t in N_MAIN}


def _work(ctx, rep):
    """One of N_PARTS worker processes: the first N_MAIN share the models, linkers and name-pool cases, the others the
    mixin x entry point x flag-form families."""
    quick = ctx.tier == 'quick'
    n_main = N_MAIN[ctx.tier]
    if ctx.part >= n_main:
        ctx.part, ctx.parts = ctx.part - n_main, N_MIX[ctx.tier]
        share = lambda total: max(1, -(-total * ctx.scale // ctx.parts))   # noqa: E731
        with warnings.catch_warnings():
            warnings.simplefilter('ignore')
            t0, c0 = time.time(), time.process_time()
            run_mixins(ctx, rep, share(6 if quick else 24), share(30 if quick else 240), share(12 if quick else 60))
        rep.dist['worker-seconds-summed:mixins'] += int(time.time() - t0)
        rep.dist['worker-cpu-seconds-summed:mixins'] += int(time.process_time() - c0)
        return
    ctx.parts = n_main
    share = lambda total: max(1, -(-total * ctx.scale // ctx.parts))   # noqa: E731
    t0, c0 = time.time(), time.process_time()
    with warnings.catch_warnings():
        warnings.simplefilter('ignore')
        scripts = run_models(ctx, rep, share(420 if quick else 4000))
        run_linkers(ctx, rep, share(110 if quick else 1000), scripts)
        run_names(ctx, rep, share(160 if quick else 2400), share(60 if quick else 800))
    rep.dist['worker-seconds-summed:main'] += int(time.time() - t0)
    rep.dist['worker-cpu-seconds-summed:main'] += int(time.process_time() - c0)
    for host in NAME_HOSTS:
        refused = _ACCEPTED.get('refused:' + host)
        if refused and ctx.part == 0:
            rep.notes.append(f'names refused on host {host} ({len(refused)}): ' + ' '.join(sorted(refused)))


def run(ctx, rep):
    quick = ctx.tier == 'quick'
    n_sub = (800 if quick else 8000) * ctx.scale
    framework.parallel(_work, ctx, rep, parts=N_PARTS[ctx.tier])
    with warnings.catch_warnings():
        warnings.simplefilter('ignore')
        extra = []
        rng = ctx.sub_rng('symscripts')
        for _ in range((1300 if quick else 12000) * ctx.scale):
            extra.append(gen_script(rng))
        run_symbols(ctx, rep, extra, n_sub, n_edge_scripts=(400 if quick else 4000) * ctx.scale,
                    n_built=(1500 if quick else 20000) * ctx.scale)
        run_probes(ctx, rep)
    rep.notes.append(f'workers {N_MAIN[ctx.tier]} + {N_MIX[ctx.tier]} (mixins x flag forms), symbol scripts {len(extra)} (+{n_sub} sub-lists)')


# ---- replay -------------------------------------------------------------------------------------------------

def replay(ctx, rep, case):
    kind = case.get('kind')
    with warnings.catch_warnings():
        warnings.simplefilter('ignore')
        if kind in ('symbols', 'symbols-sub', 'symbols-built'):
            if kind == 'symbols':
                ss = fsic.parse_model(case['script'])
            else:
                ss = [Symbol(n, Type(t), l, d, e, c) for n, t, l, d, e, c in case['symbols']]
            back, exc = symbol_round_trip(ss)
            oracle_symbols(ss, back, exc, rep, case)
            print('  in  :', ss)
            print('  out :', back if exc is None else f'raised {type(exc).__name__}: {exc}')
        elif kind in ('table', 'container', 'from_dataframe'):
            M, m = build_instance(case['recipe'])
            print('  stored:', {k: short(v.tolist(), 60) for k, v in vars(m).items() if isinstance(v, np.ndarray) and k.startswith('_')})
            if kind == 'table':
                flags = tuple(case['flags'])
                kw = {'status': flags[0], 'iterations': flags[1], 'include_internal': flags[2]}
                df, exc = safe((lambda: m.to_dataframe(**kw)) if case['entry'] == 'method' else
                               (lambda: fsic.tools.model_to_dataframe(m, **kw)), rep, 'df-export-raises', f'to_dataframe{kw}', case)
                if exc is None:
                    oracle_table(m, df, flags, rep, case, f'to_dataframe{kw}')
                print(df if exc is None else f'raised {exc!r}')
            elif kind == 'container':
                df, exc = safe(lambda: VectorContainer.to_dataframe(m), rep, 'container-export-raises', 'VectorContainer.to_dataframe', case)
                if exc is None:
                    oracle_container(m, df, rep, case, 'VectorContainer.to_dataframe')
                print(df if exc is None else f'raised {exc!r}')
            else:
                v = case['variant']
                try:
                    if v == 'dropped':
                        df = m.to_dataframe(include_internal=False).drop(columns=['status', 'iterations'])
                    elif v == 'all-flags':
                        df = m.to_dataframe(include_internal=True)
                    else:
                        df = m.to_dataframe(status=False, iterations=False, include_internal=True)
                except Exception as e:  # noqa: BLE001
                    print(f'  export raised {e!r}')
                    return
                m2, exc = safe(lambda: M.from_dataframe(df), rep, None, '', case)
                oracle_from_dataframe(M, m, df, m2, exc, rep, case, f'from_dataframe({v})')
                print(df)
                print('  span:', None if m2 is None else list(m2.span), '' if exc is None else f'raised {exc!r}')
        elif kind in ('linker', 'linker-own'):
            l = build_linker(case['lrecipe'])
            flags = tuple(case['flags'])
            kw = {'status': flags[0], 'iterations': flags[1], 'include_internal': flags[2]}
            if kind == 'linker':
                d, exc = safe((lambda: l.to_dataframes(**kw)) if case['entry'] == 'method' else
                              (lambda: fsic.tools.linker_to_dataframes(l, **kw)), rep, 'linker-export-raises', f'to_dataframes{kw}', case)
                if exc is None:
                    oracle_linker(l, flags, d, rep, case)
                    print({k: list(v.columns) for k, v in d.items()} if isinstance(d, dict) else d)
            else:
                df, exc = safe(lambda: l.to_dataframe(**kw), rep, 'df-export-raises', f'linker.to_dataframe{kw}', case)
                if exc is None:
                    oracle_table(l, df, flags, rep, case, f'linker.to_dataframe{kw}')
        elif kind == 'mixin-table':
            rec = case['recipe']
            fam = Family(rec)
            triple = tuple(form_value(j) for j in case['flags'])
            ua = form_value(case.get('use_aliases', {'form': 'omitted'}))
            df, tbl, _ = check_mixin_case(rep, fam, rec.get('mixin', 'plain'), case['entry'], ua, triple)
            print('  class :', [c.__name__ for c in type(fam.obj(rec.get('mixin', 'plain'))).__mro__[:6]])
            print('  call  :', case['entry'], flag_kwargs(triple, ua))
            print(df if df is not None else f'  raised {tbl}')
            print('  plain class, bool flags:')
            print(fam.table('plain', case['entry'], OMIT, tuple(plain_bool(v) for v in triple))[0])
        elif kind == 'mixin-linker':
            fam = LinkerFamily(dict(case['lrecipe'], mixin='plain', subs=[[k, dict(r, mixin='plain')] for k, r in case['lrecipe']['subs']]))
            triple = tuple(form_value(j) for j in case['flags'])
            ua = form_value(case.get('use_aliases', {'form': 'omitted'}))
            d, tbl, _ = check_linker_case(rep, fam, case['variant'], case['entry'], triple, ua=ua)
            print('  call  :', case['entry'], flag_kwargs(triple, ua), 'variant', case['variant'])
            print('  got   :', describe_l(tbl))
            print('  plain :', describe_l(fam.table(['plain', ['plain'] * len(case['variant'][1])], case['entry'],
                                                   tuple(plain_bool(v) for v in triple))[1]))
        elif kind == 'strict-form':
            fam = Family(case['recipe'])
            k = case['recipe'].get('mixin', 'plain')
            m, M = fam.obj(k), fam.cls(k)
            base = m.to_dataframe(status=False, iterations=False, include_internal=True)
            base = base[[c for c in base.columns if c in M.NAMES and c not in ctor_params()]]
            df = base if case['variant'] == 'class-variables' else base.assign(Zz_extra=1.5)
            v = form_value(case['strict'])
            m2, exc, out = fd_outcome(M, df, v)
            print(f'  from_dataframe(strict={v!r}):', short(out, 300))
            if not is_plain(v):
                ref = fd_outcome(M, df, bool(v))[2]
                print(f'  from_dataframe(strict={bool(v)!r}):', short(ref, 300))
                if out != ref:
                    violate(rep, f'fd-flag-form:{form_name(v)}:strict', f'from_dataframe({case["variant"]}, strict={v!r}) differs from '
                            f'strict={bool(v)}', case)
            if case['variant'] == 'class-variables':
                oracle_from_dataframe(M, m, df, m2, exc, rep, case, f'from_dataframe(strict={v!r})')
        elif kind == 'probe-alias-shadow':
            probe_alias_shadow(rep, verbose=True)
        elif kind == 'probe-span':
            m = model_class(case['script'])(list(case['span']))
            df = m.to_dataframe()
            oracle_table(m, df, (True, True, False), rep, case, f'to_dataframe() of a model with span {case["span"]!r}')
            print(df)
        else:
            print('  unknown case kind', kind)
