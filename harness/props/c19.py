"""C19 — tabular export and import are faithful round trips."""
import json, struct, warnings

import numpy as np
import pandas as pd

import fsic
from fsic.parser import Symbol, Type
from fsic.core.containers import VectorContainer

ID = 'C19'
LEAN_MODULE = 'Proofs.C19'
THEOREMS = ['Fsic.C19.' + n for n in [
    'modelTable_cols', 'dataframe_columns', 'dataframe_columns_nodup', 'dataframe_columns_needs_guard',
    'dataframe_rows', 'dataframe_cells', 'dataframe_status', 'dataframe_internal_iff', 'container_columns',
    'dataColumns_modelTable', 'linker_tables', 'linker_tables_lookup', 'linker_tables_count',
    'linker_tables_false_at_witness', 'from_dataframe_roundtrip', 'from_dataframe_roundtrip_id',
    'symbols_roundtrip_of_decoderOk', 'decoderOk_of_symbols_roundtrip', 'symbols_roundtrip_iff_decoderOk',
    'installed_coercion_observed', 'codeDecoder_ok_of_markers', 'codeDecoder_ok', 'symbols_roundtrip',
    'symbols_roundtrip_iff_validTypes', 'codeDecoder_preserves_strings', 'present_strings_roundtrip',
    'symbols_roundtrip_strings', 'toPy_injective', 'normalising_decoder_breaks_roundtrip']]
RULE = ('random model scripts (1-5 equations; lags/leads, {parameters}, <errors>, exp/log/max/min/abs/np.sqrt, '
        'conditional expressions with keywords, fenced verbatim blocks, multi-line statements) built with '
        'parse_model + build_model; instances over span types range / list of str / list of int / mixed hashables / '
        'NumPy int and str arrays / pandas Index / PeriodIndex (annual, quarterly) / DatetimeIndex, lengths 0-7, '
        'random float initial values (incl. NaN, inf, -0.0), extra variables added with add_variable of dtype '
        'int/int32/uint8/bool/str/float/float32 with plain and underscore-prefixed names, solved (solve with '
        'failures/errors ignored) and unsolved, status/iterations also edited in place; every instance exported with '
        'all 8 (status, iterations, include_internal) combinations through BaseModel.to_dataframe and '
        'fsic.tools.model_to_dataframe, through VectorContainer.to_dataframe, re-imported with from_dataframe (also '
        'from tables with dropped / extra / integer / boolean columns and a custom default_value); linkers of 0-3 '
        'such submodels with own variables, names of type str/int (incl. a name equal to a submodel key), all flag '
        'combinations; symbol lists = parser output of every generated script and of a fixed catalogue (verbatim '
        'only, functions, keywords, single symbol, ...): oracle + three-way comparison real output == model output '
        '== original list; plus contiguous sub-lists / reversals of those (three-way comparison only: not parser '
        'output, covered by the theorem). '
        'Edge whitespace: scripts whose fenced blocks have trailing blanks / tabs, whitespace-only first / last lines, '
        'whitespace-only or empty bodies, CR/LF line ends, opening fences with trailing blanks, and equations with '
        'trailing blanks (kept only as edge cases when the PARSER OUTPUT really carries \'\' or leading / trailing '
        'whitespace in a str field: counted under symbols-edge:parser:*), plus hand-built Symbol lists = every string '
        'of a 23-string alphabet (x, " x", "x ", tab/newline/CR variants, " ", "", "a b", "nan", NUL, NBSP ...) in each of '
        'name / equation / code of a verbatim / endogenous / function symbol, alone, next to None rows (mixed column, '
        'both orders), next to another str, duplicated, with the other str fields None (all-missing columns), all '
        'ordered pairs of a 9-string alphabet per column, and random lists over the alphabet (oracle + three-way '
        'comparison; the oracle compares every str field character by character and by type, so \'\' vs None and '
        '"x " vs "x" are told apart: keys symbols-roundtrip-str-altered / -str-lost / -tuple-neq). str-valued model '
        'variables with edge-whitespace cells, variable names (column labels) and span labels (list / NumPy / pandas '
        'Index) with edge whitespace or \'\' go through the same table oracles. '
        'distinct = distinct (instance recipe, entry point, flags) resp. distinct symbol list; non-trivial = at least '
        'one variable and one period resp. a non-empty list')
TRUSTED = ['pandas (DataFrame construction from a dict of arrays / a list of dicts, Index construction from the span, '
           'dtype inference, None->NaN coercion, column assignment, iterrows, DataFrame.items) is OUTSIDE the Lean '
           'model and only observed: its missing-value coercion enters the theorems through the reflected table '
           'Fsic.Generated.pandasCoercion (harness/reflect_tools.py), dtype preservation is checked on the real '
           'DataFrame by the oracle only; string identity of present cells (incl. \'\' and strings with edge whitespace) '
           'is probed on the installed pandas by harness/reflect_tools.py (str_*_full/_mixed/_alone = "same") and enters '
           'installed_coercion_observed through presentAsModelled',
           'NumPy astype(float) on int/bool cells equals Lean Float.ofInt (driver instance of the cast)',
           'cells and span labels cross to the Lean driver as opaque tokens (floats as IEEE bit patterns)']
ASSUMPTIONS = ['variable names are distinct and none is called status/iterations (the constructor and add_variable '
               'raise DuplicateNameError otherwise; checked on every generated instance)',
               'span labels survive pandas Index construction unchanged (no None/NaN labels, no int/float mixtures): '
               'such spans are probed by the oracle only',
               'from_dataframe round trip is stated for float models (the constructor casts to the model dtype) and '
               'for the variables of the class (NAMES); variables added at run time are not part of the class',
               'symbol `type` values are members of the Type enum (the typing of Symbol.type; '
               'symbols_roundtrip_iff_validTypes shows it is exactly what the round trip needs)',
               'a str / non-numeric object in a lags/leads CELL is outside the model (int(field) on it is modelled as '
               'a raise); symbols_to_dataframe never produces such a cell and nothing compared depends on it',
               'position of the status/iterations columns and the order of the linker dict are not compared '
               '(the property is silent); the Lean theorems state what the code does (appended last, linker first)']

META = {
    "text": "Theorems for every store (any variables, span, cell type), flag combination, linker and symbol list: exported columns = model-order names (underscore-prefixed iff requested) ++ status? ++ iterations?, no duplicates, index = span, one cell per period, each column holds exactly its series; container export = index order; linker export = one table per submodel plus the linker's, keyed correctly (guard: linker name not a submodel key; count theorem without the guard); from_dataframe on any export reproduces span and the cast of every class variable (identity for float models); symbols_roundtrip: for EVERY symbol list, with the reflected coercion of the installed pandas, the code's decoder (is_missing = None or float NaN -> None in name/lags/leads/equation/code, int(field) otherwise for lags/leads) returns the original list (iff every type is a Type member); in general the round trip holds for every list IFF the decoder maps the coercion's missing markers back to None in every optional field, which the code's decoder does for any coercion whose markers are None/NaN. String identity: codeDecoder_preserves_strings (for EVERY string s a present str cell decodes to s itself in name/equation/code: is_missing never fires on a str, '' and whitespace-only included), present_strings_roundtrip (under ANY coercion, whenever the round trip returns, it returns one symbol per input symbol and every present str field unchanged), symbols_roundtrip_strings (installed pandas: it does return), toPy_injective ('' and None, 'x ' and 'x' are different values of the model, so equality with the original list is field-exact), normalising_decoder_breaks_roundtrip (a decoder that alters even one string in one str field fails on a one-symbol list). Tied to fsic/tools.py, BaseModel.from_dataframe, VectorContainer.to_dataframe by exact comparison of tables (cells as IEEE bits) on generated models/linkers/symbol lists; symbol round trips compared three ways (real output == model output == original list), including parser outputs and hand-built lists whose str fields are '' or carry leading/trailing/only whitespace (strings cross to the driver JSON-escaped and come back exactly).",
    "design_ref": "DESIGN.md §5 M8, §6 C19, §7 row 15",
    "note": "Partial: pandas is outside the model (DataFrame/Index construction, dtype inference, None->NaN coercion, iterrows) - observed through the reflected table and by the oracle (dtype preservation). The two symbols round-trip findings (NaN for a missing name/equation/code; TypeError when every lags/leads entry is None) are fixed by fsic 56f842e: their oracle keys remain and a regression under them is a VIOLATION. Open known finding on the unchanged tree: a None span label is exported as NaN (df-index-none-label-nan). Trusted: Lean kernel, standard axioms, the correspondence harness.",
    "technique": "Lean 4 proof (induction over insertion-ordered dicts and symbol lists, decide on reflected tables) + differential correspondence check + property oracle on the real DataFrames"
}

FLAGS = [(s, i, n) for s in (False, True) for i in (False, True) for n in (False, True)]
KNOWN_STR_NAN = 'symbols-roundtrip-missing-str-nan'
KNOWN_INT_RAISES = 'symbols-roundtrip-all-missing-int-typeerror'
KNOWN_NONE_LABEL = 'df-index-none-label-nan'


# ---- tokens ---------------------------------------------------------------------------------------------------

def bits(x):
    return struct.unpack('<Q', struct.pack('<d', float(x)))[0]


def tok(x):
    """Opaque token of a cell / label: type tag + exact value (floats by IEEE bits, never text)."""
    if isinstance(x, (bool, np.bool_)):
        return 'b:1' if x else 'b:0'
    if isinstance(x, (int, np.integer)):
        return f'i:{int(x)}'
    if isinstance(x, (float, np.floating)):
        return f'f:{bits(x)}'
    if isinstance(x, str):
        return 's:' + x
    if x is None:
        return 'none'
    return 'o:' + repr(x)


def toks(arr):
    return [tok(v) for v in (arr.tolist() if hasattr(arr, 'tolist') else list(arr))]


def table_canon(df):
    cols = []
    for j, c in enumerate(df.columns):
        cols.append([c if isinstance(c, str) else 'o:' + repr(c), toks(df.iloc[:, j])])
    return {'index': [tok(x) for x in df.index], 'cols': cols}


def split_special(table):
    """(index, ordered variable columns, {status/iterations: cells}).  The position of status/iterations is not
    compared (the property only says they are present when requested)."""
    var = [c for c in table['cols'] if c[0] not in ('status', 'iterations')]
    spec = {}
    for c in table['cols']:
        if c[0] in ('status', 'iterations'):
            spec.setdefault(c[0], []).append(c[1])
    return table['index'], var, spec


def store_json(obj):
    return {'span': [tok(x) for x in obj.span], 'index': list(obj.index), 'names': list(getattr(obj, 'names', [])),
            'data': [[k, toks(obj[k])] for k in obj.index]}


# ---- generators -----------------------------------------------------------------------------------------------

VAR_POOL = ['Y', 'C', 'I', 'G', 'X', 'Z', 'K', 'W', 'Cd', 'YD', 'H_2', 'is_open', 'not_X', 'Pin', 'exp1', 'T', 'r', 'N9']
PAR_POOL = ['alpha', 'b1', 'mu_x', 'k']
ERR_POOL = ['eps', 'u1']
VERBATIM = ['pass', 'z = 1', 'import math', 'q = [1, 2]\nq.append(3)']


def gen_term(rng, names, depth=0):
    r = rng.random()
    if r < 0.30:
        return rng.choice(names)
    if r < 0.45:
        return f'{rng.choice(names)}[-{rng.randint(1, 3)}]'
    if r < 0.52:
        return f'{rng.choice(names)}[{rng.choice(["", "+"])}{rng.randint(1, 2)}]'
    if r < 0.60:
        return '{' + rng.choice(PAR_POOL) + '}'
    if r < 0.64:
        return '<' + rng.choice(ERR_POOL) + '>'
    if r < 0.74:
        return rng.choice(['0.5', '2', '1.25', '0', '10', '1e-3'])
    if depth >= 2:
        return rng.choice(names)
    if r < 0.84:
        f = rng.choice(['exp', 'log', 'abs', 'np.sqrt'])
        return f'{f}({gen_expr(rng, names, depth + 1)})'
    if r < 0.90:
        return f'{rng.choice(["max", "min"])}({gen_expr(rng, names, depth + 1)}, {gen_term(rng, names, depth + 1)})'
    if r < 0.96:
        c = rng.choice(['>', '<', '>=', '=='])
        extra = rng.choice(['', '', f' and {gen_term(rng, names, 2)} > 0', f' or not {gen_term(rng, names, 2)}'])
        return f'({gen_term(rng, names, 2)} if {gen_term(rng, names, 2)} {c} {gen_term(rng, names, 2)}{extra} else {gen_term(rng, names, 2)})'
    return f'({gen_expr(rng, names, depth + 1)})'


def gen_expr(rng, names, depth=0):
    n = rng.choice([1, 1, 2, 2, 3])
    out = gen_term(rng, names, depth)
    for _ in range(n - 1):
        out += f' {rng.choice(["+", "-", "*", "/", "**"])} ' + gen_term(rng, names, depth)
    if rng.random() < 0.1:
        out = '-' + out
    return out


def gen_script(rng):
    names = rng.sample(VAR_POOL, rng.randint(2, 7))
    neq = rng.choice([0, 1, 1, 2, 2, 3, 4, 5])
    neq = min(neq, len(names))
    lhs = rng.sample(names, neq)
    lines = []
    for v in lhs:
        e = gen_expr(rng, names)
        if rng.random() < 0.1:
            e = f'({e} +\n    {gen_term(rng, names)})'
        line = f'{v} = {e}'
        if rng.random() < 0.1:
            line += '  # note'
        lines.append(line)
    nv = rng.choice([0, 0, 0, 1, 1, 2]) if neq else rng.choice([1, 2])
    for _ in range(nv):
        lines.insert(rng.randint(0, len(lines)), '```\n' + rng.choice(VERBATIM) + '\n```')
    return '\n'.join(lines)


CATALOGUE = [
    'Y = C + I', 'Y = C', 'Y = 2 * Y[-1]', 'Y = 1', '```\npass\n```', '```\nz = 1\n```\n```\nimport math\n```',
    'Y = exp(X)', 'Y = max(X, 0) if Z else 2', 'Y = X\n```\nz = 1\n```\nW = Y[-1] * 2', 'Y = {a} * X[-1] + <e>',
    'Y = exp(Y[-1])', 'Y = np.sqrt(abs(Y[1]))', 'Y = Y[-1] + 1\nZ = Z[1] * 2', '',
    'A = B\nB = C\nC = D\nD = A[-1]', 'Y = (1 if not X else 0)',
]

SPAN_KINDS = ['range', 'liststr', 'listint', 'mixed', 'npint', 'npstr', 'pdint', 'pdstr', 'periodA', 'periodQ',
              'datetime', 'wsstr', 'npwsstr', 'pdwsstr']


def make_span(kind, n, o):
    if kind == 'range':
        return range(o, o + n)
    if kind == 'liststr':
        return [f'p{o + i}' for i in range(n)]
    if kind == 'listint':
        return [1990 + o + 2 * i for i in range(n)]
    if kind == 'mixed':
        base = ['a', 7, ('q', 1), 'b2', -3, (2, 3), 'zz', 100]
        return [base[(o + i) % len(base)] if i < len(base) else f'm{i}' for i in range(n)]
    if kind == 'npint':
        return np.arange(o, o + n)
    if kind == 'npstr':
        return np.array([f's{o + i}' for i in range(n)], dtype=str)
    if kind == 'pdint':
        return pd.Index([10 * (o + i) for i in range(n)])
    if kind == 'pdstr':
        return pd.Index([f'x{o + i}' for i in range(n)])
    if kind == 'periodA':
        return pd.period_range(start=str(1990 + o), periods=n, freq='Y')
    if kind == 'periodQ':
        return pd.period_range(start=f'{2000 + o}Q1', periods=n, freq='Q')
    if kind == 'datetime':
        return pd.date_range(start=f'20{10 + o:02d}-01-01', periods=n, freq='D')
    if kind in ('wsstr', 'npwsstr', 'pdwsstr'):
        labels = [WS_LABELS[(o + i) % len(WS_LABELS)] for i in range(n)]
        return labels if kind == 'wsstr' else np.array(labels, dtype=str) if kind == 'npwsstr' else pd.Index(labels)
    raise ValueError(kind)


FLOATS = [0.0, 1.0, -2.5, 3.25, 100.0, 1e-9, -0.0, float('nan'), float('inf'), float('-inf'), 0.1, 7.0]
DTYPES = {'int': int, 'bool': bool, 'str': str, 'float': float, 'int32': np.int32, 'uint8': np.uint8,
          'float32': np.float32}
EXTRA_NAMES = ['_hid', '_', '__p', '_X1', 'Nn', 'Bb', 'Ss', 'Ff', 'q_', 'U_1', '_9']
STRS = ['x', '', 'nan', 'zz top', 'é', '-', 'None', 'A_b']
# str cells with edge whitespace (values must come back exactly: no stripping anywhere on the way to the table)
WS_STRS = [' x', 'x ', '\tx', 'x\t', 'x\n', '\nx', ' ', '\n', '\t', ' x ', 'x\r\n', ' \n\t ', 'x  ', 'a b ']
# variable names (= column labels) with edge whitespace; ' _h' does not start with '_' (not internal), '_ h' does
WS_NAMES = [' x', 'x ', '\tq', 'q\n', ' ', '', ' _h', '_ h', 'a b', ' x ']
# span labels (= index labels) with edge whitespace
WS_LABELS = [' a', 'a ', '\tb', 'b\n', ' ', '', 'a b', '\n', ' \t ', 'c\r\n', ' a ']


def has_edge_ws(x):
    return isinstance(x, str) and (x == '' or x != x.strip())


def gen_extra_values(rng, dt, n):
    if rng.random() < 0.25:
        scalar = True
        k = 1
    else:
        scalar = False
        k = n
    if dt in ('int', 'int32'):
        vals = [rng.choice([0, 1, -1, 7, 2 ** 20, -99, rng.randint(-1000, 1000)]) for _ in range(k)]
    elif dt == 'uint8':
        vals = [rng.randint(0, 255) for _ in range(k)]
    elif dt == 'bool':
        vals = [rng.random() < 0.5 for _ in range(k)]
    elif dt == 'str':
        pool = STRS + WS_STRS if rng.random() < 0.5 else STRS
        vals = [rng.choice(pool) for _ in range(k)]
    elif dt == 'float32':
        vals = [rng.choice([0.0, 1.5, -2.0, 0.25, 1024.0, float('nan')]) for _ in range(k)]
    else:
        vals = [rng.choice(FLOATS) for _ in range(k)]
    return {'scalar': scalar, 'vals': vals}


def gen_recipe(rng, script, names):
    kind = rng.choice(SPAN_KINDS)
    n = rng.choice([0, 1, 2, 3, 4, 5, 5, 6, 7])
    rec = {'script': script, 'span': [kind, n, rng.randint(0, 5)], 'init': {}, 'extras': [], 'solve': None, 'edits': []}
    for v in names:
        if rng.random() < 0.6:
            rec['init'][v] = [bits(rng.choice(FLOATS)) for _ in range(n)] if rng.random() < 0.7 else bits(rng.choice(FLOATS))
    pool = EXTRA_NAMES + WS_NAMES if rng.random() < 0.3 else EXTRA_NAMES
    for nm in rng.sample(pool, rng.choice([0, 1, 2, 3, 4, 5])):
        dt = rng.choice(list(DTYPES) + (['str'] * 3 if nm in WS_NAMES else []))
        rec['extras'].append([nm, dt, gen_extra_values(rng, dt, n)])
    if rng.random() < 0.55:
        rec['solve'] = {'max_iter': rng.choice([1, 3, 20]), 'errors': rng.choice(['ignore', 'skip', 'replace'])}
    if rng.random() < 0.4 and n:
        for _ in range(rng.randint(1, 3)):
            rec['edits'].append([rng.randrange(n), rng.choice('.FES-'), rng.choice([-1, 0, 1, 5, 100])])
    return rec


def unbits(b):
    return struct.unpack('<d', struct.pack('<Q', int(b)))[0]


_CLASS_CACHE = {}


def model_class(script):
    if script not in _CLASS_CACHE:
        _CLASS_CACHE[script] = fsic.build_model(fsic.parse_model(script))
    return _CLASS_CACHE[script]


def apply_extras(obj, extras):
    for nm, dt, spec in extras:
        v = spec['vals'][0] if spec['scalar'] else list(spec['vals'])
        obj.add_variable(nm, v, dtype=DTYPES[dt])


def build_instance(rec):
    M = model_class(rec['script'])
    kind, n, o = rec['span']
    init = {k: (unbits(v) if not isinstance(v, list) else [unbits(b) for b in v]) for k, v in rec['init'].items()}
    m = M(make_span(kind, n, o), **init)
    apply_extras(m, rec['extras'])
    if rec['solve']:
        with warnings.catch_warnings(), np.errstate(all='ignore'):
            warnings.simplefilter('ignore')
            try:
                m.solve(max_iter=rec['solve']['max_iter'], failures='ignore', errors=rec['solve']['errors'])
            except Exception:  # noqa: BLE001  (a model that cannot be solved is still exported)
                pass
    for p, st, it in rec['edits']:
        m.status[p] = st
        m.iterations[p] = it
    return M, m


def names_ok(obj):
    names = list(obj.names)
    return len(set(names)) == len(names) and 'status' not in names and 'iterations' not in names


def violate(rep, key, what, case):
    """Record at most 25 failing inputs per key (the framework keeps 500 in total: one frequent key must not crowd
    out a different, new one); further ones are only counted."""
    if rep.dist['violation:' + key] < 25:
        rep.violate(key, what, case)
    else:
        rep.dist['violation:' + key] += 1


# ---- oracle: the property restated on the real objects ------------------------------------------------------

def same_label(a, b):
    try:
        r = (a == b)
        return bool(r) if not hasattr(r, '__len__') else bool(np.all(r))
    except Exception:  # noqa: BLE001
        return False


def oracle_table(obj, df, flags, rep, case, where):
    """`df` claims to be the export of `obj` (model or linker) under `flags` = (status, iterations, internal)."""
    st, it, internal = flags
    span = list(obj.span)
    idx = list(df.index)
    if len(idx) != len(span) or df.shape[0] != len(span):
        violate(rep, 'df-row-count', f'{where}: {df.shape[0]} rows for a span of {len(span)} periods', case)
        return
    for p, (a, b) in enumerate(zip(idx, span)):
        if not same_label(a, b):
            if b is None and isinstance(a, float) and a != a:
                # specific class: a None label stored by pandas as NaN (every other label equal)
                if all(same_label(x, y) for x, y in zip(idx, span) if y is not None):
                    violate(rep, KNOWN_NONE_LABEL, f'{where}: span {span!r} exported with index {idx!r}', case)
                    return
            violate(rep, 'df-index-label', f'{where}: index[{p}] = {a!r}, span[{p}] = {b!r}', case)
            return
    got = list(df.columns)
    names = list(obj.names)
    if len(set(map(repr, got))) != len(got):
        violate(rep, 'df-column-duplicate', f'{where}: duplicate column labels {got}', case)
        return
    if ('status' in got) != st:
        violate(rep, 'df-status-flag', f'{where}: status={st} but columns {got}', case)
    if ('iterations' in got) != it:
        violate(rep, 'df-iterations-flag', f'{where}: iterations={it} but columns {got}', case)
    for nm in names:
        if nm.startswith('_'):
            if (nm in got) != internal:
                violate(rep, 'df-internal-flag', f'{where}: include_internal={internal} but {nm!r} '
                            f'{"present" if nm in got else "absent"}: {got}', case)
        elif nm not in got:
            violate(rep, 'df-column-missing', f'{where}: variable {nm!r} has no column: {got}', case)
    for c in got:
        if c not in names and c not in ('status', 'iterations'):
            violate(rep, 'df-column-unexpected', f'{where}: column {c!r} is not a variable: {got}', case)
    var_got = [c for c in got if c in names]
    var_want = [nm for nm in names if nm in got]
    if var_got != var_want:
        violate(rep, 'df-column-order', f'{where}: variable columns {var_got}, model order {var_want}', case)
    for nm in var_want:
        series = obj[nm]
        col = df[nm]
        if toks(col) != toks(series):
            violate(rep, 'df-values', f'{where}: column {nm!r} holds {col.tolist()!r}, the series is {series.tolist()!r}', case)
        elif series.dtype.kind in 'fiub' and col.dtype != series.dtype:
            violate(rep, 'df-dtype', f'{where}: column {nm!r} has dtype {col.dtype}, the series {series.dtype}', case)
    if st and 'status' in got and toks(df['status']) != toks(obj.status):
        violate(rep, 'df-status-values', f'{where}: status column {df["status"].tolist()} != {obj.status.tolist()}', case)
    if it and 'iterations' in got:
        if toks(df['iterations']) != toks(obj.iterations):
            violate(rep, 'df-iterations-values', f'{where}: iterations column {df["iterations"].tolist()} != '
                        f'{obj.iterations.tolist()}', case)
        elif df['iterations'].dtype != obj.iterations.dtype:
            violate(rep, 'df-dtype', f'{where}: iterations column has dtype {df["iterations"].dtype}, the series '
                        f'{obj.iterations.dtype}', case)


def oracle_container(obj, df, rep, case, where):
    span = list(obj.span)
    if df.shape[0] != len(span) or not all(same_label(a, b) for a, b in zip(df.index, span)):
        violate(rep, 'container-index', f'{where}: index {list(df.index)} for span {span}', case)
        return
    got = list(df.columns)
    want = list(obj.index)
    if sorted(got) != sorted(want):
        violate(rep, 'container-columns', f'{where}: columns {got}, variables {want}', case)
        return
    if got != want:
        violate(rep, 'container-column-order', f'{where}: columns {got}, variable order {want}', case)
        return
    for nm in want:
        if toks(df[nm]) != toks(obj[nm]):
            violate(rep, 'container-values', f'{where}: column {nm!r} differs from the series', case)
        elif obj[nm].dtype.kind in 'fiub' and df[nm].dtype != obj[nm].dtype:
            violate(rep, 'container-dtype', f'{where}: column {nm!r} dtype {df[nm].dtype} vs {obj[nm].dtype}', case)


def oracle_from_dataframe(M, m, df, m2, exc, rep, case, where):
    """`m2 = M.from_dataframe(df)` where df holds (a subset of) the data columns of `m`."""
    if exc is not None:
        violate(rep, 'from-dataframe-raises', f'{where}: {type(exc).__name__}: {exc}', case)
        return
    a, b = list(m2.span), list(m.span)
    if len(a) != len(b) or not all(same_label(x, y) for x, y in zip(a, b)):
        violate(rep, 'from-dataframe-span', f'{where}: span {a!r}, original {b!r}', case)
        return
    for nm in M.NAMES:
        if nm in df.columns and toks(m2[nm]) != toks(m[nm]):
            violate(rep, 'from-dataframe-values', f'{where}: {nm!r} = {m2[nm].tolist()!r}, original {m[nm].tolist()!r}', case)


def classify_symbol_diff(orig, back):
    """Set of difference classes between two symbol lists of equal length."""
    out = set()
    for a, b in zip(orig, back):
        if not isinstance(b, Symbol):
            out.add('not-a-symbol')
            continue
        for f in Symbol._fields:
            x, y = getattr(a, f), getattr(b, f)
            if f == 'type':
                if not isinstance(y, Type) or y != x:
                    out.add('type')
            elif f in ('lags', 'leads'):
                if x is None:
                    if y is not None:
                        out.add('lags-leads-none-not-restored')
                elif isinstance(y, (bool, np.bool_)) or not isinstance(y, (int, np.integer)) or int(y) != x:
                    out.add('lags-leads-value')
            else:
                if x is None:
                    if isinstance(y, float) and y != y:
                        out.add('missing-str-nan')
                    elif y is not None:
                        out.add('str-none-not-restored')
                elif y is None or (isinstance(y, float) and y != y):
                    out.add('str-lost')          # a present str ('' included: '' is not None) came back missing
                elif not isinstance(y, str):
                    out.add('str-value')
                elif str(y) != x or len(y) != len(x):
                    # same type, other characters: compared character by character, so 'x ' vs 'x', '' vs ' ',
                    # '\t' vs ' ' are all told apart
                    out.add('str-altered')
    return out


def symbol_round_trip(ss):
    with warnings.catch_warnings():
        warnings.simplefilter('ignore')
        try:
            return fsic.tools.dataframe_to_symbols(fsic.tools.symbols_to_dataframe(ss)), None
        except Exception as e:  # noqa: BLE001
            return None, e


def oracle_symbols(ss, back, exc, rep, case):
    """Returns 'ok' | violation key."""
    if exc is not None:
        all_missing = bool(ss) and (all(s.lags is None for s in ss) or all(s.leads is None for s in ss))
        key = KNOWN_INT_RAISES if (isinstance(exc, TypeError) and all_missing) else 'symbols-roundtrip-raises'
        violate(rep, key, f'round trip raised {type(exc).__name__}: {exc}', case)
        return key
    if not isinstance(back, list) or len(back) != len(ss):
        violate(rep, 'symbols-roundtrip-length', f'{len(ss)} symbols in, {len(back) if isinstance(back, list) else type(back).__name__} out', case)
        return 'symbols-roundtrip-length'
    diff = classify_symbol_diff(ss, back)
    if not diff:
        try:
            same = bool(back == ss) and all(tuple(b) == tuple(a) for a, b in zip(ss, back))
        except Exception:  # noqa: BLE001
            same = False
        if not same:
            violate(rep, 'symbols-roundtrip-tuple-neq', f'round trip returned {back!r} != {ss!r}', case)
            return 'symbols-roundtrip-tuple-neq'
        return 'ok'
    if diff == {'missing-str-nan'}:
        key = KNOWN_STR_NAN
    else:
        key = 'symbols-roundtrip-' + '+'.join(sorted(diff - {'missing-str-nan'}))
    bad = [(a, b) for a, b in zip(ss, back) if classify_symbol_diff([a], [b])][:2]
    violate(rep, key, f'round trip changed symbols: {bad!r}', case)
    return key


# ---- canonical forms for the model comparison ----------------------------------------------------------------

def sym_in(ss):
    return [[s.name, int(s.type), s.lags, s.leads, s.equation, s.code] for s in ss]


def pyval(x, field):
    if field == 'type':
        return 't:%d' % int(x) if isinstance(x, (int, np.integer)) else 'o:' + repr(x)
    if x is None:
        return 'none'
    if isinstance(x, (bool, np.bool_)):
        return 'o:bool'
    if isinstance(x, str):
        return 's:' + x
    if isinstance(x, (int, np.integer)):
        return f'i:{int(x)}'
    if isinstance(x, (float, np.floating)):
        if x != x:
            return 'nan'
        return f'f:{int(x)}' if float(x) == int(x) else 'o:' + repr(float(x))
    return 'o:' + type(x).__name__


def sym_out(back):
    return [[pyval(getattr(s, f), f) for f in Symbol._fields] for s in back]


def conforming(ss):
    """What the property demands, in the canonical form of `sym_out`."""
    return [[pyval(getattr(s, f), f) for f in Symbol._fields] for s in ss]


# ---- the run -----------------------------------------------------------------------------------------------

def check_tables(ctx, rep, items):
    """items: (what, store_json, flags|None, impl_table, case).  One driver batch."""
    if ctx.oracle_only or not items:
        return
    lines = []
    for what, store, flags, impl, case in items:
        if flags is None:
            lines.append('tools_container\t' + json.dumps({'store': store}))
        else:
            lines.append('tools_columns\t' + json.dumps({'store': store, 'status': flags[0], 'iterations': flags[1],
                                                         'include_internal': flags[2]}))
    outs = ctx.drive(lines)
    for (what, store, flags, impl, case), o in zip(items, outs):
        model = json.loads(o) if not o.startswith('!') else o
        if flags is None:
            same = model == impl
        else:
            same = not isinstance(model, str) and split_special(model) == split_special(impl)
        if not same:
            rep.disagree(what + ': model != impl', case, model, impl)


def run_models(ctx, rep, n_models):
    rng = ctx.sub_rng('models')
    scripts = []
    items = []
    ft_items = []
    made = 0
    attempts = 0
    while made < n_models and attempts < n_models * 4:
        attempts += 1
        script = gen_script(rng) if rng.random() < 0.9 else rng.choice(CATALOGUE)
        try:
            with warnings.catch_warnings():
                warnings.simplefilter('ignore')
                M = model_class(script)
        except Exception as e:  # noqa: BLE001  (generator produced something the parser rejects: not this property)
            rep.dist['script-rejected:' + type(e).__name__] += 1
            continue
        scripts.append(script)
        rec = gen_recipe(rng, script, list(M.NAMES))
        try:
            M, m = build_instance(rec)
        except Exception as e:  # noqa: BLE001
            rep.dist['instance-failed:' + type(e).__name__] += 1
            continue
        made += 1
        one_model(ctx, rep, rec, M, m, items, ft_items, rng)
        if len(items) > 4000:
            check_tables(ctx, rep, items)
            items = []
    check_tables(ctx, rep, items)
    check_from_table(ctx, rep, ft_items)
    return scripts


def one_model(ctx, rep, rec, M, m, items, ft_items, rng):
    rep.dist['span:' + rec['span'][0]] += 1
    rep.dist['solved' if rec['solve'] else 'unsolved'] += 1
    rep.dist['n_extras:%d' % len(rec['extras'])] += 1
    for nm, dt, spec in rec['extras']:
        rep.dist['extra-dtype:' + dt] += 1
        if has_edge_ws(nm):
            rep.dist['edge-ws:column-label'] += 1
        if dt == 'str' and any(has_edge_ws(v) for v in spec['vals']):
            rep.dist['edge-ws:str-cell-variable'] += 1
    if rec['span'][0] in ('wsstr', 'npwsstr', 'pdwsstr') and rec['span'][1]:
        rep.dist['edge-ws:span-labels'] += 1
    if not names_ok(m):
        rep.dist['names-guard-broken'] += 1
        rep.notes.append(f'instance with duplicate/reserved variable names: {list(m.names)}')
        return
    store = store_json(m)
    nontrivial = bool(len(m.span)) and bool(m.names)
    for flags in FLAGS:
        kw = {'status': flags[0], 'iterations': flags[1], 'include_internal': flags[2]}
        for entry in ('method', 'function'):
            case = {'kind': 'table', 'recipe': rec, 'flags': list(flags), 'entry': entry}
            df = m.to_dataframe(**kw) if entry == 'method' else fsic.tools.model_to_dataframe(m, **kw)
            oracle_table(m, df, flags, rep, case, f'{entry} to_dataframe{kw}')
            items.append(('model_to_dataframe', store, flags, table_canon(df), case))
            rep.case(json.dumps(case, sort_keys=True), nontrivial=nontrivial,
                     sample={'script': rec['script'], 'span': rec['span'], 'flags': list(flags),
                             'columns': list(df.columns)} if rep.evaluations % 1499 == 0 else None)
    # container export
    case = {'kind': 'container', 'recipe': rec}
    cdf = VectorContainer.to_dataframe(m)
    oracle_container(m, cdf, rep, case, 'VectorContainer.to_dataframe(model)')
    items.append(('VectorContainer.to_dataframe', store, None, table_canon(cdf), case))
    rep.case(json.dumps(case, sort_keys=True), nontrivial=nontrivial)
    # import
    for variant in ('data-columns', 'dropped', 'all-flags', 'subset+extra', 'ints'):
        case = {'kind': 'from_dataframe', 'recipe': rec, 'variant': variant}
        kwargs = {}
        if variant == 'data-columns':
            df = m.to_dataframe(status=False, iterations=False, include_internal=True)
        elif variant == 'dropped':
            df = m.to_dataframe(include_internal=False).drop(columns=['status', 'iterations'])
        elif variant == 'all-flags':
            df = m.to_dataframe(include_internal=True)
        elif variant == 'subset+extra':
            df = m.to_dataframe(status=False, iterations=False)
            keep = [c for c in df.columns if rng.random() < 0.6]
            df = df[keep].copy()
            df['Zz_extra'] = 1.5
            kwargs = {'default_value': rng.choice([2.5, 3, -1.0])}
        else:
            df = pd.DataFrame({nm: [rng.choice([0, 1, -7, 12]) for _ in m.span] if j % 2 == 0 else
                               [rng.random() < 0.5 for _ in m.span] for j, nm in enumerate(M.NAMES)}, index=m.span)
            if len(m.span) == 0:
                df = df.astype(int)
        if any(df[c].dtype.kind not in 'fiub' for c in df.columns if c in M.NAMES):
            continue
        try:
            m2, exc = M.from_dataframe(df, **kwargs), None
        except Exception as e:  # noqa: BLE001
            m2, exc = None, e
        if variant in ('data-columns', 'dropped', 'all-flags'):
            oracle_from_dataframe(M, m, df, m2, exc, rep, case, f'from_dataframe({variant})')
        rep.case(json.dumps(case, sort_keys=True), nontrivial=nontrivial)
        # series compared by name (the order of the container index is not an observable of this property)
        impl = 'raises' if m2 is None else {'span': [tok(x) for x in m2.span], 'names': list(m2.names),
                                            'data': sorted([k, toks(m2[k])] for k in m2.index)}
        ft_items.append((table_canon(df), list(M.NAMES), tok(kwargs.get('default_value', 0.0)), impl, case))


def check_from_table(ctx, rep, ft_items):
    if ctx.oracle_only or not ft_items:
        return
    outs = ctx.drive(['tools_from_table\t' + json.dumps({'table': t, 'NAMES': names, 'default': d})
                      for t, names, d, _, _ in ft_items])
    for (t, names, d, impl, case), o in zip(ft_items, outs):
        model = json.loads(o) if not o.startswith('!') else o
        if isinstance(model, dict):
            model['data'] = sorted(model['data'])
        if model != impl:
            rep.disagree('from_dataframe: model != impl', case, model, impl)


LINKER_NAMES = ['_', 'L', 'world', 0, 17]
SUB_KEYS = ['A', 'B', 'uk', 1, 2, 'L']


def gen_linker_recipe(rng, scripts):
    nsub = rng.choice([0, 1, 2, 2, 3])
    # BaseLinker compares submodel spans with `!=`, which only yields a bool for plain sequences
    kind = rng.choice(SPAN_KINDS if nsub <= 1 else ['range', 'liststr', 'listint', 'mixed', 'wsstr'])
    n = rng.choice([1, 2, 3, 4, 5])
    o = rng.randint(0, 3)
    keys = rng.sample(SUB_KEYS, nsub)
    subs = []
    for k in keys:
        script = rng.choice(scripts)
        M = model_class(script)
        rec = gen_recipe(rng, script, list(M.NAMES))
        rec['span'] = [kind, n, o]
        rec['init'] = {}
        rec['edits'] = [e for e in rec['edits'] if e[0] < n]
        for ex in rec['extras']:
            ex[2] = gen_extra_values(rng, ex[1], n)
        subs.append([k, rec])
    name = rng.choice([x for x in LINKER_NAMES if x not in keys])
    if keys and rng.random() < 0.06:
        name = rng.choice(keys)
    own = rng.choice([[], ['T'], ['T', '_U'], ['_U', 'V', 'T']])
    extras = []
    for nm in rng.sample(EXTRA_NAMES, rng.choice([0, 1, 2])):
        dt = rng.choice(list(DTYPES))
        extras.append([nm, dt, gen_extra_values(rng, dt, n)])
    return {'name': name, 'own': own, 'subs': subs, 'extras': extras, 'solve': rng.random() < 0.4,
            'span': [kind, n, o]}


_LINKER_CLASSES = {}


def linker_class(own):
    key = tuple(own)
    if key not in _LINKER_CLASSES:
        class Lk(fsic.BaseLinker):
            ENDOGENOUS = list(own[:1])
            EXOGENOUS = list(own[1:])
            NAMES = ENDOGENOUS + EXOGENOUS
            CHECK = ENDOGENOUS
        _LINKER_CLASSES[key] = Lk
    return _LINKER_CLASSES[key]


def build_linker(lrec):
    subs = {}
    for k, rec in lrec['subs']:
        subs[k] = build_instance(rec)[1]
    if subs:
        l = linker_class(lrec['own'])(subs, name=lrec['name'])
    else:
        l = linker_class(lrec['own'])({}, name=lrec['name'])
    apply_extras(l, [e for e in lrec['extras']] if len(l.span) == lrec['span'][1] else [])
    if lrec['solve']:
        with warnings.catch_warnings(), np.errstate(all='ignore'):
            warnings.simplefilter('ignore')
            try:
                l.solve(max_iter=3, failures='ignore', errors='ignore')
            except Exception:  # noqa: BLE001
                pass
    return l


def ktok(k):
    return tok(k)


def oracle_linker(l, flags, d, rep, case):
    kw = {'status': flags[0], 'iterations': flags[1], 'include_internal': flags[2]}
    subkeys = list(l.submodels.keys())
    if any(same_label(l.name, k) for k in subkeys):
        return 'name-collision'   # a dict cannot hold both tables: the property has no reading here
    if not isinstance(d, dict) or len(d) != len(subkeys) + 1 or set(map(ktok, d.keys())) != set(map(ktok, subkeys + [l.name])):
        violate(rep, 'linker-tables-keys', f'to_dataframes{kw}: keys {list(d.keys()) if isinstance(d, dict) else type(d)}, '
                    f'submodels {subkeys}, linker {l.name!r}', case)
        return 'bad-keys'
    oracle_table(l, d[l.name], flags, rep, case, f'linker table {l.name!r} {kw}')
    for k in subkeys:
        oracle_table(l.submodels[k], d[k], flags, rep, case, f'submodel table {k!r} {kw}')
    return 'ok'


def run_linkers(ctx, rep, n_linkers, scripts):
    rng = ctx.sub_rng('linkers')
    scripts = [s for s in scripts if s in _CLASS_CACHE] or ['Y = X']
    items = []
    for _ in range(n_linkers):
        lrec = gen_linker_recipe(rng, scripts)
        try:
            l = build_linker(lrec)
        except Exception as e:  # noqa: BLE001
            rep.dist['linker-failed:' + type(e).__name__] += 1
            continue
        rep.dist['linker-submodels:%d' % len(lrec['subs'])] += 1
        if not names_ok(l) or not all(names_ok(s) for s in l.submodels.values()):
            rep.dist['names-guard-broken'] += 1
            continue
        lstore = store_json(l)
        sstores = [[ktok(k), store_json(s)] for k, s in l.submodels.items()]
        for flags in FLAGS:
            kw = {'status': flags[0], 'iterations': flags[1], 'include_internal': flags[2]}
            for entry in ('method', 'function'):
                case = {'kind': 'linker', 'lrecipe': lrec, 'flags': list(flags), 'entry': entry}
                d = l.to_dataframes(**kw) if entry == 'method' else fsic.tools.linker_to_dataframes(l, **kw)
                r = oracle_linker(l, flags, d, rep, case)
                rep.dist['linker:' + r] += 1
                rep.case(json.dumps(case, sort_keys=True, default=str), nontrivial=bool(lrec['subs']))
                impl = sorted([[ktok(k), list(split_special(table_canon(v)))] for k, v in d.items()], key=lambda p: p[0]) \
                    if isinstance(d, dict) else 'not-a-dict'
                items.append((ktok(l.name), lstore, sstores, flags, impl, case))
            # the linker's own to_dataframe
            case = {'kind': 'linker-own', 'lrecipe': lrec, 'flags': list(flags)}
            df = l.to_dataframe(**kw)
            oracle_table(l, df, flags, rep, case, f'linker.to_dataframe{kw}')
            rep.case(json.dumps(case, sort_keys=True, default=str), nontrivial=True)
    if ctx.oracle_only or not items:
        return
    outs = ctx.drive(['tools_linker\t' + json.dumps({'name': nm, 'linker': ls, 'subs': ss, 'status': f[0], 'iterations': f[1],
                                                     'include_internal': f[2]}) for nm, ls, ss, f, _, _ in items])
    for (nm, ls, ss, f, impl, case), o in zip(items, outs):
        if o.startswith('!'):
            model = o
        else:
            model = sorted([[k, list(split_special(t))] for k, t in json.loads(o)], key=lambda p: p[0])
        if json.loads(json.dumps(model)) != json.loads(json.dumps(impl)):
            rep.disagree('linker_to_dataframes: model != impl', case, model, impl)


def symbol_lists(rng, scripts, n_sub, built=()):
    """[(symbol list, origin, in_quantifier)]: parser outputs (in the property's quantifier: oracle + comparison),
    hand-built lists with edge whitespace / '' in the str fields (`built`: the neighbourhood of the parser's output,
    oracle + comparison) and contiguous sub-lists / reversals of parser outputs (comparison only — the theorem covers
    them)."""
    out = []
    seen = set()
    for script in list(CATALOGUE) + list(scripts):
        try:
            with warnings.catch_warnings():
                warnings.simplefilter('ignore')
                ss = fsic.parse_model(script)
        except Exception:  # noqa: BLE001
            continue
        key = repr(ss)
        if key in seen:
            continue
        seen.add(key)
        out.append((ss, {'kind': 'symbols', 'script': script}, True))
    parsed = [x for x in out if len(x[0]) >= 2]
    for _ in range(n_sub):
        ss, origin, _ = rng.choice(parsed)
        i = rng.randrange(len(ss))
        j = rng.randint(i + 1, len(ss))
        sub = ss[i:j]
        if rng.random() < 0.3:
            sub = list(reversed(sub))
        key = repr(sub)
        if key in seen:
            continue
        seen.add(key)
        out.append((sub, {'kind': 'symbols-sub', 'script': origin['script'], 'slice': [i, j], 'symbols': sym_in(sub)}, False))
    for ss, tag in built:
        key = repr(ss)
        if key in seen:
            continue
        seen.add(key)
        out.append((ss, {'kind': 'symbols-built', 'origin': tag, 'symbols': sym_in(ss)}, True))
    return out


def symbols_shape(ss):
    """Which columns mix present and missing entries / are entirely missing (what pandas' coercion depends on)."""
    out = []
    for f in ('name', 'lags', 'leads', 'equation', 'code'):
        miss = sum(getattr(s, f) is None for s in ss)
        if miss and miss < len(ss):
            out.append(f + ':mixed')
        elif miss:
            out.append(f + ':all-missing')
    return out

# ---- symbol lists whose str fields carry edge whitespace / are '' ---------------------------------------------------

# bodies of fenced verbatim blocks (the parser builds `code = equation.strip('`\r\n')`: blanks and tabs at the edges of
# the body, whitespace-only first / last lines and a whitespace-only body all survive; a body of newlines only gives '')
EDGE_BODIES = ['x = 1  ', 'x = 1\t', 'x = 1 \t ', '   \nx = 1', '\t\nx = 1', 'x = 1\n   ', 'x = 1\n\t', '  ', '\t', ' \t ',
               '', '\n', ' \n ', ' \n\t\nz = 2\n \n ', 'x = 1 \r', 'x = 1\t\r\n', 'if x:\n    y = 1\n  ', 'q = [1,\n     2] ',
               'x = 1\n\n  ', 'import math ', 'pass\t', '  x = 1', '\tx = 1', ' x = 1 ', 'x = 1\x0c ', 'x = 1 # c  ']
EDGE_FENCES = ['```', '````', '``` ', '```\t']          # an opening fence with trailing blanks leaves them in `code`
EDGE_TAILS = [' ', '  ', '\t', ' \t', ' \r']             # appended to an equation line (kept as ONE trailing blank)
# strings for hand-built symbols: each in each str field
EDGE_ALPHABET = ['x', ' x', 'x ', '\tx', 'x\t', 'x\n', '\nx', ' ', '', '\n', '\t', 'a b', ' x ', 'x\r\n', '\r', ' \n\t ',
                 'x  ', '```\nz = 1 \n```', 'nan', 'None', '\x0b', '\u2003x\u00a0', 'x\x00']
EDGE_SMALL = ['x', ' x', 'x ', '\tx', 'x\n', ' ', '', '\n', 'a b']
STR_FIELDS = ('name', 'equation', 'code')


def edge_kinds(ss):
    """{'field:position:char'} for every str field of the list that is '' or starts / ends with whitespace."""
    out = set()
    names = {' ': 'space', '\t': 'tab', '\n': 'nl', '\r': 'cr'}
    for sym in ss:
        for f in STR_FIELDS:
            v = getattr(sym, f)
            if not isinstance(v, str):
                continue
            if v == '':
                out.add(f + ':empty')
            elif v.strip() == '':
                out.add(f + ':ws-only:' + '+'.join(sorted({names.get(ch, 'other') for ch in v})))
            else:
                if v != v.lstrip():
                    out.add(f + ':leading:' + names.get(v[0], 'other'))
                if v != v.rstrip():
                    out.add(f + ':trailing:' + names.get(v[-1], 'other'))
    return out


def edge_scripts(rng, n_random):
    """Scripts whose parser output may carry edge whitespace: every EDGE_BODY in a fenced block (alone, between
    equations, with CRLF line ends, after a fence with trailing blanks), equations with trailing blanks, and random
    scripts decorated with both."""
    out = []
    for b in EDGE_BODIES:
        for fence in EDGE_FENCES:
            block = f'{fence}\n{b}\n{fence.strip()}'
            out.append(block)
            if fence == '```':
                out.append('Y = X\n' + block + '\nZ = Y[-1]')
                out.append(block.replace('\n', '\r\n'))
                out.append(block + '\n' + block)
                out.append('```\nz = 1\n```\n' + block)
    for t in EDGE_TAILS:
        out += ['Y = X' + t, 'Y = C + I' + t + '\nC = 0.5 * Y[-1]', 'Y = (C +\n     I)' + t, 'Y = exp(X)' + t + '\n```\npass \n```',
                'Y = X' + t + '\r\nZ = Y' + t]
    for _ in range(n_random):
        lines = gen_script(rng).split('\n')
        deco = []
        in_block = False
        for ln in lines:
            if ln.startswith('```'):
                in_block = not in_block
            elif in_block:
                if rng.random() < 0.6:
                    ln = rng.choice(EDGE_BODIES[:21])
            elif ln and not ln.startswith(' ') and not ln.endswith('+') and ln.count('(') == ln.count(')') and rng.random() < 0.4:
                ln = ln + rng.choice(EDGE_TAILS)
            deco.append(ln)
        for _ in range(rng.choice([0, 1, 1, 2])):
            deco.insert(rng.randint(0, len(deco)) if not in_block else len(deco),
                        '```\n' + rng.choice(EDGE_BODIES[:21]) + '\n```')
        out.append(rng.choice(['\n', '\n', '\r\n']).join('\n'.join(deco).split('\n')))
    return out


def _sym(template, **kw):
    d = dict(template)
    d.update(kw)
    return Symbol(**d)


EDGE_TEMPLATES = {
    'verbatim': dict(name=None, type=Type.VERBATIM, lags=None, leads=None, equation='```\nz = 1\n```', code='z = 1'),
    'endogenous': dict(name='Y', type=Type.ENDOGENOUS, lags=-1, leads=0, equation='Y[t] = Y[t-1]', code='self._Y[t] = self._Y[t-1]'),
    'function': dict(name='exp', type=Type.FUNCTION, lags=None, leads=None, equation=None, code=None),
}


def built_edge_lists(rng, n_random):
    """Hand-built symbol lists (the neighbourhood of the parser's output): every string of EDGE_ALPHABET in every str
    field of a verbatim / endogenous / function symbol, alone, next to rows where that field is None (mixed column,
    either order), next to another str, duplicated, and with the OTHER str fields None (all-missing columns);
    every ordered pair of EDGE_SMALL in one column; random lists with every str field drawn from the alphabet or None."""
    out = []
    for tname, tpl in EDGE_TEMPLATES.items():
        for f in STR_FIELDS:
            for k, a in enumerate(EDGE_ALPHABET):
                other = EDGE_ALPHABET[(k + 5) % len(EDGE_ALPHABET)]
                for bare_others in (False, True):
                    base = dict(tpl)
                    if bare_others:
                        for g in STR_FIELDS:
                            if g != f:
                                base[g] = None
                    S = _sym(base, **{f: a})
                    N = _sym(base, **{f: None})
                    T = _sym(base, **{f: other})
                    for shape, ss in (('alone', [S]), ('then-none', [S, N]), ('none-then', [N, S]), ('then-str', [S, T]),
                                      ('none-both-sides', [N, S, N]), ('twice', [S, S])):
                        out.append((ss, f'built:{tname}:{f}:{shape}' + (':others-none' if bare_others else '')))
    for f in STR_FIELDS:
        for a in EDGE_SMALL:
            for b in EDGE_SMALL:
                tpl = EDGE_TEMPLATES['verbatim' if f != 'name' else 'endogenous']
                out.append(([_sym(tpl, **{f: a}), _sym(tpl, **{f: b})], f'built:pair:{f}'))
    pool = EDGE_ALPHABET + [None] * 6
    for _ in range(n_random):
        ss = []
        for _ in range(rng.choice([1, 2, 2, 3, 4, 6])):
            t = rng.choice([Type.VERBATIM, Type.ENDOGENOUS, Type.EXOGENOUS, Type.FUNCTION, Type.KEYWORD, Type.PARAMETER])
            ss.append(Symbol(name=rng.choice(pool), type=t, lags=rng.choice([None, None, 0, -1, -3]),
                             leads=rng.choice([None, None, 0, 2]), equation=rng.choice(pool), code=rng.choice(pool)))
        out.append((ss, 'built:random'))
    return out


def run_symbols(ctx, rep, scripts, n_sub, n_edge_scripts=0, n_built=0):
    rng = ctx.sub_rng('symbols')
    erng = ctx.sub_rng('symbols-edge')
    escripts = edge_scripts(erng, n_edge_scripts)
    lists = symbol_lists(rng, list(scripts) + escripts, n_sub, built_edge_lists(erng, n_built))
    rep.dist['symbols-edge:scripts-tried'] += len(escripts)
    rows = []
    for ss, case, in_q in lists:
        back, exc = symbol_round_trip(ss)
        if in_q:
            r = oracle_symbols(ss, back, exc, rep, case)
            rep.dist['symbols:' + ('ok' if r == 'ok' else r)] += 1
        origin = {'symbols': 'parser', 'symbols-built': 'built', 'symbols-sub': 'sub'}[case['kind']]
        ek = edge_kinds(ss)
        if ek:
            # only lists that really carry '' / edge whitespace in a str field are counted here
            rep.dist[f'symbols-edge:{origin}:lists'] += 1
            for k in ek:
                rep.dist[f'symbols-edge:{origin}:{k}'] += 1
        if origin == 'built':
            rep.dist['symbols-built:' + case['origin'].split(':')[1]] += 1
        kinds = {int(s.type) for s in ss}
        for t in kinds:
            rep.dist['symbol-type:%d' % t] += 1
        for sh in symbols_shape(ss):
            rep.dist['symbols-column:' + sh] += 1
        rep.case(repr(ss), nontrivial=bool(ss),
                 sample={'script': case.get('script', case.get('origin')), 'n': len(ss), 'back': repr(back)[:200]}
                 if rep.evaluations % 211 == 0 else None)
        if exc is not None:
            impl = 'raises'
        elif isinstance(back, list) and all(isinstance(b, Symbol) for b in back):
            impl = sym_out(back)
        else:
            impl = 'o:' + type(back).__name__
        rows.append((ss, case, impl))
    if ctx.oracle_only or not rows:
        return
    outs = ctx.drive(['tools_symbols\t' + json.dumps({'symbols': sym_in(ss)}) for ss, _, _ in rows])
    for (ss, case, impl), o in zip(rows, outs):
        model = json.loads(o)['decoded'] if not o.startswith('!') else o
        # strict, three ways: real output == model output == original list
        if impl != model:
            rep.disagree('symbols round trip: model != impl', case, model, impl)
        elif model != conforming(ss):
            rep.disagree('symbols round trip: model (= impl) != original list', case, model, conforming(ss))


PROBE_SPANS = [[1, None, 2], [None, 'a']]


def run_probes(ctx, rep):
    """Fixed oracle-only probes of behaviours outside the model."""
    M = model_class('Y = X')
    # a variable called status / iterations cannot exist (guard of dataframe_columns)
    for nm in ('status', 'iterations'):
        m = M(range(2))
        try:
            m.add_variable(nm, 0.0)
            rep.dist['guard:add_variable(%s) accepted' % nm] += 1
            rep.notes.append(f'add_variable({nm!r}) did not raise: the NamesOk guard is no longer enforced by the code')
        except Exception:  # noqa: BLE001
            rep.dist['guard:add_variable(%s) rejected' % nm] += 1
    # spans pandas cannot hold as they are (outside the model: oracle only)
    for sp in PROBE_SPANS:
        case = {'kind': 'probe-span', 'script': 'Y = X', 'span': sp}
        m = M(list(sp))
        oracle_table(m, m.to_dataframe(), (True, True, False), rep, case, f'to_dataframe() of a model with span {sp!r}')
        rep.case(json.dumps(case), nontrivial=True)
    # plain containers
    for k in range(3):
        c = VectorContainer(make_span(SPAN_KINDS[k * 4], 3, k))
        c.add_variable('B', [True, False, True])
        c.add_variable('_n', [1, 2, 3], dtype=np.int32)
        c.add_variable('F', 0.5)
        case = {'kind': 'probe-container', 'k': k}
        df = c.to_dataframe()
        oracle_container(c, df, rep, case, 'VectorContainer.to_dataframe')
        rep.case(json.dumps(case), nontrivial=True)
        if not ctx.oracle_only:
            check_tables(ctx, rep, [('VectorContainer.to_dataframe (plain container)', store_json(c), None,
                                     table_canon(df), case)])
    # empty symbol list
    back, exc = symbol_round_trip([])
    oracle_symbols([], back, exc, rep, {'kind': 'symbols', 'script': ''})
    rep.case('symbols:[]', nontrivial=False)


def run(ctx, rep):
    quick = ctx.tier == 'quick'
    n_models = (420 if quick else 4000) * ctx.scale
    n_linkers = (110 if quick else 1000) * ctx.scale
    n_sub = (800 if quick else 8000) * ctx.scale
    with warnings.catch_warnings():
        warnings.simplefilter('ignore')
        scripts = run_models(ctx, rep, n_models)
        run_linkers(ctx, rep, n_linkers, scripts)
        extra = []
        rng = ctx.sub_rng('symscripts')
        for _ in range((900 if quick else 8000) * ctx.scale):
            extra.append(gen_script(rng))
        run_symbols(ctx, rep, scripts + extra, n_sub, n_edge_scripts=(400 if quick else 4000) * ctx.scale,
                    n_built=(1500 if quick else 20000) * ctx.scale)
        run_probes(ctx, rep)
    rep.notes.append(f'models {n_models}, linkers {n_linkers}, symbol scripts {len(scripts) + len(extra)} (+{n_sub} sub-lists)')


# ---- replay -------------------------------------------------------------------------------------------------

def replay(ctx, rep, case):
    kind = case.get('kind')
    with warnings.catch_warnings():
        warnings.simplefilter('ignore')
        if kind in ('symbols', 'symbols-sub', 'symbols-built'):
            if kind == 'symbols':
                ss = fsic.parse_model(case['script'])
            else:
                ss = [Symbol(n, Type(t), l, d, e, c) for n, t, l, d, e, c in case['symbols']]
            back, exc = symbol_round_trip(ss)
            oracle_symbols(ss, back, exc, rep, case)
            print('  in  :', ss)
            print('  out :', back if exc is None else f'raised {type(exc).__name__}: {exc}')
        elif kind in ('table', 'container', 'from_dataframe'):
            M, m = build_instance(case['recipe'])
            if kind == 'table':
                flags = tuple(case['flags'])
                kw = {'status': flags[0], 'iterations': flags[1], 'include_internal': flags[2]}
                df = m.to_dataframe(**kw) if case['entry'] == 'method' else fsic.tools.model_to_dataframe(m, **kw)
                oracle_table(m, df, flags, rep, case, f'to_dataframe{kw}')
                print(df)
            elif kind == 'container':
                df = VectorContainer.to_dataframe(m)
                oracle_container(m, df, rep, case, 'VectorContainer.to_dataframe')
                print(df)
            else:
                v = case['variant']
                if v == 'dropped':
                    df = m.to_dataframe(include_internal=False).drop(columns=['status', 'iterations'])
                elif v == 'all-flags':
                    df = m.to_dataframe(include_internal=True)
                else:
                    df = m.to_dataframe(status=False, iterations=False, include_internal=True)
                try:
                    m2, exc = M.from_dataframe(df), None
                except Exception as e:  # noqa: BLE001
                    m2, exc = None, e
                oracle_from_dataframe(M, m, df, m2, exc, rep, case, f'from_dataframe({v})')
                print(df)
                print('  span:', None if m2 is None else list(m2.span))
        elif kind in ('linker', 'linker-own'):
            l = build_linker(case['lrecipe'])
            flags = tuple(case['flags'])
            kw = {'status': flags[0], 'iterations': flags[1], 'include_internal': flags[2]}
            if kind == 'linker':
                d = l.to_dataframes(**kw) if case['entry'] == 'method' else fsic.tools.linker_to_dataframes(l, **kw)
                oracle_linker(l, flags, d, rep, case)
                print({k: list(v.columns) for k, v in d.items()} if isinstance(d, dict) else d)
            else:
                oracle_table(l, l.to_dataframe(**kw), flags, rep, case, f'linker.to_dataframe{kw}')
        elif kind == 'probe-span':
            m = model_class(case['script'])(list(case['span']))
            df = m.to_dataframe()
            oracle_table(m, df, (True, True, False), rep, case, f'to_dataframe() of a model with span {case["span"]!r}')
            print(df)
        else:
            print('  unknown case kind', kind)
