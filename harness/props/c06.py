"""C06 — numerical-error and failure policies follow the documented state machine."""
import itertools, json, warnings

import numpy as np

import fsic
import solver_common as sc
from solver_common import bits, unbits
from props.c02 import base_case, mkopts, ERRORS

ID = 'C06'
LEAN_MODULE = 'Proofs.C06'
THEOREMS = ['Fsic.C06.' + n for n in [
    'loop_at', 'preexisting_nonfinite_rejected', 'preexisting_nonfinite_unchanged', 'policy_raise', 'policy_skip',
    'solve_moves_on', 'policy_invalid', 'policy_continue_solved', 'policy_continue_failed',
    'policy_continue_failed_at_max', 'never_judged_from_nonfinite', 'eval_exception', 'before_exception',
    'after_exception', 'status_alphabet', 'solved_iff_dot', 'runStmts_append', 'catch_first_no_store', 'warning_statement_not_stored',
    'no_catch_stores', 'policy_statuses_sound']]
RULE = ('every placement of a fault kind (NaN, +inf, -inf, warning-raising statement, Python exception) at every pass '
        'position up to L, the other passes drawn from {far, close}, crossed with errors in {raise, skip, ignore, '
        'replace, <invalid>} x failures x catch_first_error x (min_iter, max_iter) x pre-existing non-finite values '
        '(exhaustive for scripted models); raising / warning pre- and post-hooks; parser-built models whose equations '
        'produce the fault naturally at a chosen pass (1/0, log 0, exp overflow, inf-inf). distinct = distinct '
        '(script, options, initial state); non-trivial = a fault or exception is actually reached')
TRUSTED = ['NumPy emits RuntimeWarning for divide-by-zero / invalid / overflow on float64 scalars (observed on the real '
           'code; in the model a warning is a flag returned by the statement)',
           'the scripted-model harness (solver_common.py) plays the same script on both sides']
ASSUMPTIONS = ['-n <= t < n', 'hooks do not touch check variables in the oracle stream (they do in the correspondence stream)']
META = {
    'text': "Theorems for every interpretation, option set and period: pre-existing non-finite values rejected before any "
            "pass under 'raise'; the first newly non-finite pass s gives 'E'/s/SolutionError (raise), 'S'/s/False (skip, and "
            "a multi-period solve moves on), continues (ignore/replace) with convergence judged only on passes whose held "
            "previous vector is finite; 'F' at max_iter; exceptions in a pass or hook give a chained SolutionError with "
            "'E'/pass only for a pass under 'raise'; statuses are the reflected alphabet; solved flag iff '.'; under "
            "catch_first_error the warning statement performs no store. Tied to BaseModel.solve_t by exact comparison on "
            "exhaustive fault placements and natural faults.",
    'design_ref': 'DESIGN.md §5 M1, §6 C06',
    'note': 'Trusted: Lean kernel; axioms propext/Classical.choice/Quot.sound; correspondence harness on generated cases; '
            'NumPy warning behaviour is an input to the model (a per-statement flag). Assumes -n <= t < n.',
    'technique': 'Lean 4 proof (loop skipping lemma + one-step stop lemmas) + differential correspondence check',
}

FAULTS = ['nan', 'pinf', 'ninf', 'allinf', 'allninf', 'warn', 'raise']
CATS = list(sc.WARNING_CATEGORIES)


def placement_cases(L):
    n, nE, check, t = 3, 2, [0, 1], 1
    i = 0
    for fault in FAULTS:
        for p in range(L):
            for fill in itertools.product(['far', 'close', 'zero'], repeat=L - 1):
                seq = list(fill[:p]) + [fault] + list(fill[p:])
                for errors in ERRORS:
                    for catch in (True, False):
                        for (m_, M) in [(0, L), (0, p + 1), (2, L), (0, L + 1), (p + 1, p + 1)]:
                            for pre in (False, True):
                                i += 1
                                o = mkopts(m_, M, 0, 'raise' if i % 2 else 'ignore', errors, catch)
                                vals = [[1.0, 2.0, 3.0], [4.0, 5.0, 6.0]]
                                if pre:
                                    vals[i % 2][1] = [float('nan'), float('inf')][i % 2]
                                c = base_case(n, nE, check, t, o, {1: seq}, vals=vals)
                                # implementation-side variations the model cannot see (deterministic in i)
                                c['write'] = 'rebind' if i % 3 == 0 else 'inplace'
                                c['prov'] = sc.PROVENANCES[i % len(sc.PROVENANCES)]
                                c['names'] = sc.NAME_STYLES[(i // 5) % len(sc.NAME_STYLES)]
                                if i % 4 == 1:      # the period carries the record of an earlier (failed) solve
                                    c['status'] = '-.FES'[(i // 4) % 5] * n
                                    c['iters'] = [(-1, 0, 3, 7)[(i // 20) % 4]] * n
                                for a in c['script'][1]:
                                    if a['k'] == 'warn':
                                        a['cat'] = CATS[(i // 2) % len(CATS)]
                                yield c


def hook_cases(rng, count):
    for _ in range(count):
        n, nE = 3, 2
        t = rng.choice([0, 1, 2, -1])
        pos = t + n if t < 0 else t
        seq = [rng.choice(['far', 'close', 'nan', 'same']) for _ in range(rng.randint(0, 3))]
        o = mkopts(rng.choice([0, 1]), rng.choice([1, 2, 4]), 0, rng.choice(['raise', 'ignore']), rng.choice(ERRORS),
                   rng.choice([True, False]))
        hooks = {}
        for which in ('before', 'after'):
            acts = [{'k': 'keep'} for _ in range(n)]
            if rng.random() < 0.6:
                acts[pos] = {'k': rng.choice(['raise', 'warn', 'set']), 'v': [bits(9.0), bits(8.0)], 'm': rng.choice([0, 1, 2])}
            hooks[which] = acts
        yield sc.vary_implementation_side(
            base_case(n, nE, [0, 1], t, o, {pos: seq}, before=hooks['before'], after=hooks['after']), rng)


def offset_cases(rng, count):
    """Non-zero in-span offsets with a non-finite value sitting at t, at t + offset, or nowhere: 'pre-existing' refers to
    the values the first pass starts from, i.e. after the copy."""
    for _ in range(count):
        n, nE = rng.choice([3, 4]), 2
        t = rng.randrange(-n, n)
        pos = t + n if t < 0 else t
        offs = [k for k in (-2, -1, 1, 2) if 0 <= pos + k < n]
        if not offs:
            continue
        off = rng.choice(offs)
        seq = [rng.choice(['far', 'close', 'same', 'nan', 'pinf', 'ninf', 'allinf', 'allninf', 'zero', 'zero', 'raise', 'warn']) for _ in range(rng.randint(0, 4))]
        M = rng.choice([1, 2, 3, 5])
        o = mkopts(rng.choice([0, 0, 1, 2]) if M > 1 else 0, M, off, rng.choice(['raise', 'ignore']), rng.choice(ERRORS),
                   rng.choice([True, False]))
        o['min_iter'] = min(o['min_iter'], M)
        vals = [[float(i + 1 + 10 * p) for p in range(n)] for i in range(nE)]
        where = rng.choice(['none', 'at_t', 'at_source', 'at_source', 'both'])
        bad = rng.choice([float('nan'), float('inf'), float('-inf')])
        if where in ('at_t', 'both'):
            vals[rng.randrange(nE)][pos] = bad
        if where in ('at_source', 'both'):
            vals[rng.randrange(nE)][pos + off] = bad
        yield sc.vary_implementation_side(base_case(n, nE, [0, 1], t, o, {pos: seq}, vals=vals), rng)


def extreme_cases(rng, count):
    """Finite values at the edge of the double range (their sum or difference overflows): non-finiteness is a
    per-element notion, so these are ordinary values — no 'E'/'S', no up-front rejection, ordinary convergence rule."""
    for _ in range(count):
        n, nE = 3, rng.choice([2, 3])
        t = rng.choice([0, 1, 2, -1])
        pos = t + n if t < 0 else t
        seq = [rng.choice(['huge', 'huge', 'far', 'close', 'same', 'nan', 'warn']) for _ in range(rng.randint(0, 4))]
        M = rng.choice([1, 2, 3, 5])
        o = mkopts(rng.choice([0, 0, 1, 2]), M, 0, rng.choice(['raise', 'ignore']), rng.choice(ERRORS), rng.choice([True, False]))
        o['min_iter'] = min(o['min_iter'], M)
        big = rng.choice([1.0e308, -1.0e308, 1.7e308])
        vals = [[rng.choice([big, big, 0.0, 1.0]) for p in range(n)] for i in range(nE)]
        yield sc.vary_implementation_side(base_case(n, nE, list(range(nE)), t, o, {pos: seq}, vals=vals), rng)


def finite(v):
    return all(np.isfinite(x) for x in v)


def expected(case):
    """The documented state machine, computed from the script alone. Returns None where the property is silent."""
    n, nE, t, o = case['n'], case['nE'], case['t'], case['opts']
    pos = t + n if t < 0 else t
    if o['min_iter'] > o['max_iter']:
        return None
    src = pos + o['offset']
    if not (0 <= src < n):
        return None
    E = o['errors']
    strict = (E == 'raise' and o['catch_first_error'])
    before = case['before'][pos] if pos < len(case['before']) else {'k': 'keep'}
    after = case['after'][pos] if pos < len(case['after']) else {'k': 'keep'}
    # the starting state is what the first pass starts from: with a non-zero offset, the values of t + offset
    cur_all = [unbits(case['vals'][i][src]) for i in range(nE)]
    v0 = [cur_all[i] for i in case['check']]
    st0, it0 = case['status'][pos], case['iters'][pos]
    if E == 'raise' and not finite(v0):
        return dict(tag='SolutionError', status=st0, iters=it0, calls=[])
    calls = ['b']
    if before['k'] == 'raise' or (before['k'] == 'warn' and strict):
        return dict(tag='SolutionError:chained', status=st0, iters=it0, calls=calls)
    if before['k'] != 'keep':
        return None     # hook changes values: the property does not say which vector counts as the starting state
    prev = v0
    row = case['script'][pos] if pos < len(case['script']) else []
    M = max(o['max_iter'], 0)
    for k in range(1, M + 1):
        calls.append(f'e{k}')
        act = row[k - 1] if k - 1 < len(row) else {'k': 'keep'}
        if act['k'] == 'raise' or (act['k'] == 'warn' and strict):
            if E == 'raise':
                return dict(tag='SolutionError:chained', status='E', iters=k, calls=calls)
            return dict(tag='SolutionError:chained', status=st0, iters=it0, calls=calls)
        if act['k'] in ('set', 'warn'):
            vv = [unbits(b) for b in act['v']]
            cur_all = vv[:nE] + cur_all[len(vv):]
        cur = [cur_all[i] for i in case['check']]
        if not finite(prev):
            prev = cur
            continue
        if not finite(cur):
            if E == 'raise':
                return dict(tag='SolutionError', status='E', iters=k, calls=calls)
            if E == 'skip':
                return dict(tag='ret:F', status='S', iters=k, calls=calls)
            if E not in ('ignore', 'replace'):
                return None
            if k == M:
                break
            prev = [x if np.isfinite(x) else 0.0 for x in cur] if E == 'replace' else cur
            continue
        tol = unbits(case['tol'])
        if k >= max(1, o['min_iter']) and all(abs(a - b) < tol for a, b in zip(cur, prev)):
            calls.append(f'a{k}')
            if after['k'] == 'raise' or (after['k'] == 'warn' and strict):
                return dict(tag='SolutionError:chained', status=st0, iters=it0, calls=calls)
            return dict(tag='ret:T', status='.', iters=k, calls=calls)
        prev = cur
    return dict(tag='NonConvergenceError' if o['failures'] == 'raise' else 'ret:F', status='F', iters=M, calls=calls)


def oracle(case, m, tag, rep):
    exp = expected(case)
    n, t = case['n'], case['t']
    pos = t + n if t < 0 else t
    st = ''.join(str(x) for x in m.status)
    it = [int(x) for x in m.iterations]
    if any(c not in '-.FES' for c in st):
        rep.violate('status-alphabet', f'status outside the alphabet: {st!r}', case)
    if (tag == 'ret:T') != (st[pos] == '.' and tag.startswith('ret')) and tag.startswith('ret'):
        rep.violate('solved-flag', f'returned {tag} with status {st[pos]!r}', case)
    if exp is None:
        return 'silent'
    got_tag = tag if exp['tag'] != 'SolutionError' else tag.split(':')[0]
    ok = (got_tag == exp['tag'] and st[pos] == exp['status'] and it[pos] == exp['iters'] and m.calls == exp['calls'])
    for p in range(n):
        if p != pos and (st[p] != case['status'][p] or it[p] != case['iters'][p]):
            ok = False
    if not ok:
        kind = exp['tag'].split(':')[0] + '/' + case['opts']['errors']
        rep.violate('policy-mismatch:' + kind,
                    f'expected {exp}, got tag={tag} status={st[pos]!r} iters={it[pos]} calls={m.calls}', case)
    return exp['tag']


def check_cases(ctx, rep, cases, label):
    impl_out = []
    for case in cases:
        s, m, tag = sc.run_impl_solve_t(case)
        impl_out.append(s)
        r = oracle(case, m, tag, rep)
        rep.dist[f'{label}:{case["opts"]["errors"]}:{r}'] += 1
        pos = case['t'] + case['n'] if case['t'] < 0 else case['t']
        rep.case(json.dumps(case, sort_keys=True), nontrivial=not tag.startswith('ret:T') or len(m.passes) > 1,
                 sample={'script_t': [a['k'] for a in case['script'][pos]], 'opts': case['opts'], 'impl': s[:80]}
                 if rep.evaluations % 1999 == 0 else None)
    if not ctx.oracle_only:
        outs = ctx.drive([sc.line('solve_t', c) for c in cases])
        for case, a, b in zip(cases, outs, impl_out):
            if a != b:
                rep.disagree('solve_t: model != impl', case, a, b)


# ---- natural faults ---------------------------------------------------------------------------------------------

NATURAL = [
    ('div0', 'Z = Z * 10\nY = 1 / (3 - Z)', 0.003, 4),      # Z: .003 .03 .3 3 -> 1/0 at pass 3, from start 0.003*10...
    ('log0', 'Z = Z * 10\nY = log(3 - Z)', 0.003, 4),
    ('overflow', 'Z = Z * 10\nY = exp(Z * 300)', 0.003, 4),
    ('infinf', 'Z = Z * 10\nY = 1 / (3 - Z) - 1 / (3 - Z)', 0.003, 4),
    ('underflow', 'Z = Z * 10\nY = exp(0 - Z * 300)', 0.003, 4),      # exp(-900) = 0.0: underflow is NOT a fault
    ('tiny', 'Z = Z * 10\nY = (exp(0 - 368) / Z) * exp(0 - 368)', 0.003, 4),   # product underflows to 0: not a fault either
]
# the second statement of each natural script, evaluated independently of fsic under an explicit error state:
# NumPy's default treatment (divide, overflow, invalid operation are warnings; underflow is silent)
_NAT_EXPR = {
    'div0': lambda Z: np.float64(1) / (np.float64(3) - Z),
    'log0': lambda Z: np.log(np.float64(3) - Z),
    'overflow': lambda Z: np.exp(Z * np.float64(300)),
    'infinf': lambda Z: np.float64(1) / (np.float64(3) - Z) - np.float64(1) / (np.float64(3) - Z),
    'underflow': lambda Z: np.exp(np.float64(0) - Z * np.float64(300)),
    'tiny': lambda Z: (np.exp(np.float64(0) - np.float64(368)) / Z) * np.exp(np.float64(0) - np.float64(368)),
}


def natural_fault_pass(name, z0, max_pass):
    """First pass (1-based) at which the statement for Y raises a NumPy floating-point warning, or None."""
    Z = np.float64(z0)
    for k in range(1, max_pass + 1):
        Z = Z * np.float64(10)
        with np.errstate(divide='raise', over='raise', invalid='raise', under='ignore'):
            try:
                _NAT_EXPR[name](Z)
            except FloatingPointError:
                return k
    return None
_NAT_CACHE = {}


def natural_run(name, script, z0, rng, rep, ctx, batch):
    if name not in _NAT_CACHE:
        _NAT_CACHE[name] = fsic.build_model(fsic.parse_model(script))
    Model = _NAT_CACHE[name]

    class Rec(Model):
        def solve_t_before(self, t, **kw):
            self.__dict__['calls'].append('b')
            super().solve_t_before(t, **kw)

        def solve_t_after(self, t, *, iteration=None, **kw):
            self.__dict__['calls'].append(f'a{iteration}')
            super().solve_t_after(t, iteration=iteration, **kw)

        def _evaluate(self, t, *, iteration=None, **kw):
            self.__dict__['calls'].append(f'e{iteration}')
            before = (float(self._Z[t]), float(self._Y[t]))
            try:
                super()._evaluate(t, iteration=iteration, **kw)
                self.__dict__['rec'].append(('set', float(self._Z[t]), float(self._Y[t]), before))
            except Exception:
                self.__dict__['rec'].append(('raise', float(self._Z[t]), float(self._Y[t]), before))
                raise

    n = 3
    m = Rec(range(n))
    m.__dict__['calls'] = []
    m.__dict__['rec'] = []
    m.Z[:] = z0
    m.Y[:] = 1.0
    t = rng.choice([0, 1, 2, -1])
    o = mkopts(rng.choice([0, 0, 2]), rng.choice([2, 3, 4, 6, 8]), 0, rng.choice(['raise', 'ignore']),
               rng.choice(ERRORS), rng.choice([True, False]))
    if rng.random() < 0.3:      # the combination whose fault pass is decided independently below
        o['errors'], o['catch_first_error'] = 'raise', True
    tol = 1e-6
    vals0 = [[float(x) for x in m.Z], [float(x) for x in m.Y]]
    with warnings.catch_warnings():
        warnings.simplefilter('ignore')
        try:
            r = m.solve_t(t, **sc.opts_kwargs(o, bits(tol)))
            tag = 'ret:T' if r else 'ret:F'
        except Exception as e:  # noqa: BLE001
            tag = sc.exc_name(e)
    pos = t + n if t < 0 else t
    acts = [{'k': k, 'v': [bits(z), bits(y)], 'm': 2} for (k, z, y, _) in m.rec]
    case = {'n': n, 'nE': 2, 'check': [0, 1], 'tol': bits(tol),
            'script': [acts if p == pos else [] for p in range(n)], 'before': [], 'after': [],
            'vals': [[bits(x) for x in row] for row in vals0], 'status': '-' * n, 'iters': [-1] * n, 'opts': o, 't': t,
            'source': script}
    st = ''.join(str(x) for x in m.status)
    it = ','.join(str(int(x)) for x in m.iterations)
    vals = ';'.join(','.join(str(bits(x)) for x in arr) for arr in (m.Z, m.Y))
    impl = f'{tag}|{st}|{it}|{",".join(m.calls)}|{vals}'
    # property clause: with catch_first_error the statement that produced the warning does not store its result,
    # while the earlier statement of that pass (Z) is stored
    if o['errors'] == 'raise' and o['catch_first_error'] and m.rec and m.rec[-1][0] == 'raise':
        k, z, y, (z_before, y_before) = m.rec[-1]
        if bits(y) != bits(y_before) or bits(z) == bits(z_before):
            rep.violate('catch-first-stored', f'{name}: after the warning pass Y went {y_before}->{y}, Z {z_before}->{z}', case)
        rep.dist['natural:catch-first-checked'] += 1
    # which pass faults is decided by IEEE arithmetic and NumPy's default error state, not by what the run recorded
    if o['errors'] == 'raise' and o['catch_first_error'] and o['min_iter'] <= o['max_iter']:
        f = natural_fault_pass(name, z0, o['max_iter'])
        want = ['set'] * (f - 1) + ['raise'] if f is not None else ['set'] * o['max_iter']
        got = [r[0] for r in m.rec]
        if got != want:
            rep.violate('natural-fault-pass', f'{name}: passes {got}, but the statement for Y '
                        + (f'raises a floating-point warning first at pass {f}' if f else 'never raises a floating-point warning')
                        + f' within max_iter={o["max_iter"]} -> {tag}', case)
        rep.dist['natural:fault-pass-checked:' + ('fault' if f else 'none')] += 1
    # run the documented state machine over the recorded script
    scripted = {k: v for k, v in case.items() if k != 'source'}
    exp = expected(scripted)
    if exp is not None:
        got_tag = tag if exp['tag'] != 'SolutionError' else tag.split(':')[0]
        its = [int(x) for x in m.iterations]
        if not (got_tag == exp['tag'] and st[pos] == exp['status'] and its[pos] == exp['iters']):
            rep.violate('policy-mismatch:natural/' + o['errors'], f'{name}: expected {exp}, got {tag} {st[pos]!r} {its[pos]}', case)
    rep.dist[f'natural:{name}:{o["errors"]}:{tag.split(":")[0]}'] += 1
    rep.case(json.dumps(case, sort_keys=True), nontrivial=True,
             sample={'source': script, 'opts': o, 't': t, 'impl': impl[:100]} if rep.evaluations % 211 == 0 else None)
    batch.append((case, impl))


def _work(ctx, rep):
    L = 3 if ctx.tier == 'quick' else 5
    cases = [c for i, c in enumerate(placement_cases(L)) if i % ctx.parts == ctx.part]
    for i in range(0, len(cases), 5000):
        check_cases(ctx, rep, cases[i:i + 5000], 'placement')
    rng = ctx.sub_rng('hooks')
    check_cases(ctx, rep, list(hook_cases(rng, (2000 if ctx.tier == 'quick' else 200000) * ctx.scale // ctx.parts)), 'hooks')
    rng = ctx.sub_rng('offsets')
    check_cases(ctx, rep, list(offset_cases(rng, (2500 if ctx.tier == 'quick' else 200000) * ctx.scale // ctx.parts)), 'offset')
    from props.c02 import dtype_case, scale_case
    rng = ctx.sub_rng('dtype')
    check_cases(ctx, rep, [dtype_case(rng) for _ in range((1000 if ctx.tier == 'quick' else 100000) * ctx.scale // ctx.parts)], 'dtype')
    rng = ctx.sub_rng('scale')
    check_cases(ctx, rep, [scale_case(rng, False) for _ in range((6 if ctx.tier == 'quick' else 100) * ctx.scale // ctx.parts)], 'scale')
    rng = ctx.sub_rng('extremes')
    check_cases(ctx, rep, list(extreme_cases(rng, (1500 if ctx.tier == 'quick' else 150000) * ctx.scale // ctx.parts)), 'extremes')
    rng = ctx.sub_rng('natural')
    batch = []
    for _ in range((400 if ctx.tier == 'quick' else 40000) * ctx.scale // ctx.parts):
        name, script, z0, _ = rng.choice(NATURAL)
        natural_run(name, script, z0, rng, rep, ctx, batch)
    if not ctx.oracle_only:
        outs = ctx.drive([sc.line('solve_t', {k: v for k, v in c.items() if k != 'source'}) for c, _ in batch])
        for (case, impl), a in zip(batch, outs):
            if a != impl:
                rep.disagree('solve_t (natural fault, recorded passes): model != impl', case, a, impl)
    rep.notes.append(f'part {ctx.part}/{ctx.parts}: placements L={L}: {len(cases)} cases')


def run(ctx, rep):
    import framework
    framework.parallel(_work, ctx, rep, parts=(1 if ctx.tier == 'quick' else ctx.workers))


def replay(ctx, rep, case):
    c = {k: v for k, v in case.items() if k != 'source'}
    s, m, tag = sc.run_impl_solve_t(c)
    oracle(c, m, tag, rep)
    print('  impl :', s)
    try:
        print('  model:', ctx.drive([sc.line('solve_t', c)])[0])
    except Exception as e:  # noqa: BLE001
        print('  model: <driver unavailable>', e)
