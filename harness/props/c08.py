"""C08 — linker solves its submodels jointly and consistently."""
import json, warnings

import numpy as np

import fsic
from fsic.exceptions import InitialisationError, NonConvergenceError
import solver_common as sc
from solver_common import bits, unbits
from props.c02 import mkopts

ID = 'C08'
LEAN_MODULE = 'Proofs.C08'
THEOREMS = ['Fsic.C08.' + n for n in [
    'evalSubs_logged_fst', 'evalSubs_logged_events', 'linker_iteration_shape', 'unselected_not_evaluated',
    'resetAll_keyError', 'unknown_id_keyerror', 'linker_offset_seeds', 'linker_offset_oob', 'lSolveT_eq_finish',
    'linker_converges', 'linker_fails', 'stampSubs_selected', 'stampSubs_unselected', 'evalSubs_counts',
    'lags_leads_max', 'span_mismatch_rejected', 'single_model_linker_eq_model', 'single_model_linker_eq_model_all', 'lfinish_vs_finish', 'linker_agreement',
    'linker_never_skipped_or_error', 'linker_outcome_exists',
    'linker_history_irrelevant', 'linkerPass_counts', 'linker_counts_after', 'resetAll_zero', 'stampSubs_iter',
    'linker_converged_submodels']] + ['Fsic.lSolveT_eq_outcome', 'Fsic.lOutcome_agrees', 'Fsic.loop_bound_finite']
RULE = ('scripted linkers over 0..4 scripted submodels (each with its own per-pass script and check subset) with scripted '
        'linker hooks (own variables, exceptions, cross-links copying a cell from one submodel to another), all '
        'selections: None, every subset in every order, duplicates, unknown ids; min_iter/max_iter/tol/failures lattice, '
        'offsets in and out of span, both period spellings; parser-built submodels with differing lags/leads and spans '
        'for construction; single-model linkers vs the model solved directly (scripted and parser-built). distinct = '
        'distinct (scripts, selection, options, t); non-trivial = at least one iteration with a selected submodel')
TRUSTED = ['the scripted-linker harness plays the same scripts on both sides',
           'IEEE double |a-b| < tol in NumPy equals Lean Float']
ASSUMPTIONS = ['-n <= t < n', 'submodel passes do not modify iteration counters themselves']
META = {
    'text': "Theorems for every linker interpretation, selection list, option set and period: an iteration calls the "
            "pre-hook, one pass of each selected submodel in selection order, the post-hook and nothing else (logged "
            "interpretation); unselected submodels are not evaluated and not re-stamped; unknown id => KeyError; offset "
            "seeds/rejects as for a model; solved iff a least accepted iteration within [max(1,min_iter), max_iter] exists "
            "(the C02 loop theorems applied to the composite interpretation), the same status on linker and every selected "
            "submodel, selected submodels' counters advance by exactly one per iteration; lags/leads are attained maxima; "
            "differing spans rejected; a linker that simulates a single model through a projection solves it to the model's "
            "own status, count and values. Tied to BaseLinker.solve_t by exact comparison on scripted linkers.",
    'design_ref': 'DESIGN.md §5 M1 (linker), §6 C08',
    'note': 'Trusted: Lean kernel; axioms propext/Classical.choice/Quot.sound; correspondence harness on generated cases. '
            'Two genuine defects were repaired in /repo (fix: commits 9d26f1d squared-difference criterion, d5372d9 ignored offset).',
    'technique': 'Lean 4 proof (reuse of the solver-loop theorems on a composite interpretation, simulation lemma) + differential correspondence check',
}


class ProxyLog(list):
    def __init__(self, log, i):
        super().__init__()
        self.log, self.i = log, i

    def append(self, x):
        if x.startswith('e'):
            self.log.append(f's{self.i}:{x[1:]}')


_LCLS = {}


def linker_class(nL, lcheck):
    key = (nL, tuple(lcheck))
    if key in _LCLS:
        return _LCLS[key]
    names = [f'L{i}' for i in range(nL)]

    class SL(fsic.BaseLinker):
        ENDOGENOUS = list(names)
        NAMES = list(names)
        CHECK = [names[i] for i in lcheck]

        def _pos(self, t):
            return t + len(self.span) if t < 0 else t

        def _playL(self, t, act):
            k = act['k']
            if k == 'keep':
                return
            if k in ('set', 'raise'):
                v = [unbits(b) for b in act.get('v', [])]
                upto = nL if k == 'set' else min(act.get('m', 0), nL)
                for i, x in enumerate(v[:upto]):
                    self.__dict__['_' + names[i]][t] = x
                if k == 'raise':
                    raise RuntimeError('scripted linker exception')
            elif k == 'link':
                src = self.submodels[act['a']]
                dst = self.submodels[act['b']]
                dst.__dict__['_' + list(dst.ENDOGENOUS)[act['j']]][t] = src.__dict__['_' + list(src.ENDOGENOUS)[act['i']]][t]

        def _snapshot(self, t, submodels):
            vec = [[float(self.__dict__['_' + n][t]) for n in self.CHECK]]
            for k_, sm in self.submodels.items():
                if k_ in submodels:
                    vec.append([float(sm[nm][t]) for nm in sm.check])
            return vec

        def solve_t_before(self, t, *, submodels=None, **kw):
            self.log.append('sb')
            self.seen_at_before = ([float(self.__dict__['_' + n][t]) for n in names],
                                   {k_: [float(self.submodels[k_].__dict__['_' + nm_][t])
                                         for nm_ in self.submodels[k_].ENDOGENOUS]
                                    for k_ in submodels if k_ in self.submodels})
            self.vecs.append(self._snapshot(t, submodels))
            acts = self.solve_before_s
            p = self._pos(t)
            if p < len(acts):
                self._playL(t, acts[p])

        def solve_t_after(self, t, *, iteration=None, **kw):
            self.log.append(f'sa{iteration}')
            acts = self.solve_after_s
            p = self._pos(t)
            if p < len(acts):
                self._playL(t, acts[p])

        def evaluate_t_before(self, t, *, iteration=None, **kw):
            self.log.append(f'eb{iteration}')
            row = self.eval_before_s[self._pos(t)] if self._pos(t) < len(self.eval_before_s) else []
            if 0 <= iteration - 1 < len(row):
                self._playL(t, row[iteration - 1])

        def evaluate_t_after(self, t, *, submodels=None, iteration=None, **kw):
            self.log.append(f'ea{iteration}')
            row = self.eval_after_s[self._pos(t)] if self._pos(t) < len(self.eval_after_s) else []
            try:
                if 0 <= iteration - 1 < len(row):
                    self._playL(t, row[iteration - 1])
            finally:
                self.vecs.append(self._snapshot(t, submodels))

    _LCLS[key] = SL
    return SL


def build(case):
    n = case['n']
    subs = {}
    log = []
    for i, s in enumerate(case['subs']):
        sub_case = {'n': n, 'nE': s['nE'], 'check': s['check'], 'vals': s['vals'], 'status': s['status'], 'iters': s['iters'],
                    'script': s['script'], 'before': [], 'after': [],
                    'names': s.get('names'), 'prov': s.get('prov', 'fresh'), 'write': s.get('write', 'inplace'),
                    'mix': s.get('mix'), 'check_edit': s.get('check_edit'), 'strict': s.get('strict')}
        m = sc.build_instance(sub_case, exo=())
        m.__dict__['calls'] = ProxyLog(log, i)
        subs[i] = m
    cls = linker_class(len(case['lvals']), case['lcheck'])
    # the linker's own dtype (it governs the linker's own variables only; the submodels keep theirs)
    lkw = {'dtype': {'int': int, 'float32': np.float32}[case['ldtype']]} if case.get('ldtype') else {}
    if subs:
        L = cls(subs, **lkw)
    else:
        L = cls({}, span=list(range(n)), **lkw)
    for i, row in enumerate(case['lvals']):
        L.__dict__[f'_L{i}'][:] = [unbits(b) for b in row]
    L.status[:] = list(case['status'])
    L.iterations[:] = case['iters']
    d = L.__dict__
    d['log'] = log
    d['vecs'] = []
    d['seen_at_before'] = None
    d['solve_before_s'], d['solve_after_s'] = case['solve_before'], case['solve_after']
    d['eval_before_s'], d['eval_after_s'] = case['eval_before'], case['eval_after']
    return L


def state_str(L, case):
    st = ''.join(str(x) for x in L.status)
    it = ','.join(str(int(x)) for x in L.iterations)
    lv = ';'.join(','.join(str(bits(x)) for x in L.__dict__[f'_L{i}']) for i in range(len(case['lvals'])))
    subs = []
    for i, s in enumerate(case['subs']):
        m = L.submodels[i]
        subs.append(''.join(str(x) for x in m.status) + '~' + ','.join(str(int(x)) for x in m.iterations) + '~' +
                    ';'.join(','.join(str(bits(x)) for x in m.__dict__['_' + list(m.ENDOGENOUS)[j]]) for j in range(s['nE'])))
    return f'{st}|{it}|{",".join(L.log)}|{lv}|' + '/'.join(subs)


def run_impl(case):
    L = build(case)
    o = case['opts']
    kw = sc.opts_kwargs(o, case['tol'], case.get('argform', 'plain'))
    sel = case['sel']
    # the selection in the form the caller happens to have it: list, tuple, a one-shot iterator, dict keys
    form = case.get('selform', 'list')
    if case.get('sel_none'):
        sub_arg = None
    elif form == 'tuple':
        sub_arg = tuple(sel)
    elif form == 'keys':
        sub_arg = dict.fromkeys(sel).keys() if len(set(sel)) == len(sel) else list(sel)
    elif form == 'nparray' and sel and all(isinstance(x, int) for x in sel):
        sub_arg = [np.int64(x) for x in sel]
    else:
        sub_arg = list(sel)
    with warnings.catch_warnings():
        warnings.simplefilter('ignore')
        try:
            r = L.solve_t(sc.t_arg(case), submodels=sub_arg, **kw)
            tag = 'ret:T' if r else 'ret:F'
        except NonConvergenceError:
            tag = 'NonConvergenceError'
        except KeyError:
            tag = 'KeyError'
        except IndexError:
            tag = 'IndexError'
        except Exception:  # noqa: BLE001
            tag = 'Raised'
    return tag, L


# ---- generation ---------------------------------------------------------------------------------------------------

def gen_case(rng):
    n = rng.choice([2, 3, 4])
    ns = rng.choice([0, 1, 1, 2, 2, 3, 4])
    t = rng.randrange(-n, n)
    pos = t + n if t < 0 else t
    M = rng.choice([0, 1, 2, 3, 4, 6])
    o = mkopts(rng.choice([0, 0, 1, 2, M + 1]), M, rng.choice([0, 0, 0, 0, 0, -1, 1, -1, 1, n, -n]), rng.choice(['raise', 'ignore']),
               'raise', True)
    subs = []
    for i in range(ns):
        nE = rng.choice([1, 2])
        check = sorted(rng.sample(range(nE), rng.choice([nE, nE, 0]) if nE else 0))
        vals = [[float(rng.choice([0.0, 1.0, 2.5, i + p])) for p in range(n)] for _ in range(nE)]
        L_ = rng.randint(0, 5)
        alpha = rng.choice([['far', 'close', 'same', 'edge'], ['same', 'close'], ['far', 'close', 'same', 'one', 'nan', 'raise', 'warn']])
        seq = [rng.choice(alpha) for _ in range(L_)]
        src = pos + o['offset'] if 0 <= pos + o['offset'] < n else pos
        script = [sc.make_script(seq if p == pos else [], [vals[j][src if p == pos else p] for j in range(nE)], nE) for p in range(n)]
        subs.append({'nE': nE, 'check': check, 'vals': [[bits(x) for x in r] for r in vals], 'script': script,
                     'status': ''.join(rng.choice('-.F') for _ in range(n)) if rng.random() < 0.3 else '-' * n,
                     'iters': [rng.choice([-1, 5]) for _ in range(n)] if rng.random() < 0.3 else [-1] * n,
                     # implementation-side variations the model cannot see
                     'names': rng.choice(sc.NAME_STYLES), 'prov': rng.choice(sc.PROVENANCES),
                     'write': rng.choice(['inplace', 'inplace', 'rebind']), 'mix': rng.choice(sc.MIXES),
                     'check_edit': rng.random() < 0.3, 'strict': rng.random() < 0.2})
        for acts in script:
            for a in acts:
                if a.get('k') == 'raise':
                    # (KeyError / IndexError / NonConvergenceError are left out here: the linker reports unknown submodel ids,
                    #  out-of-span offsets and its own non-convergence with those classes, and this harness tells outcomes apart by exception class)
                    a['exc'] = rng.choice([k for k in sc.EXCEPTION_KINDS if k not in ('KeyError', 'IndexError', 'NonConvergenceError')])
    nL = rng.choice([0, 0, 1, 2])
    lcheck = sorted(rng.sample(range(nL), rng.choice([nL, 0]))) if nL else []
    lvals = [[float(rng.choice([0.0, 1.0, 7.0])) for _ in range(n)] for _ in range(nL)]

    def lact():
        r = rng.random()
        if r < 0.55 or (nL == 0 and ns < 2 and r < 0.9):
            return {'k': 'keep'}
        if r < 0.8 and nL:
            base = rng.choice([0.0, 0.125, 1.0, 5.0])
            return {'k': 'set', 'v': [bits(base + 0.125 * j) for j in range(nL)]}
        if r < 0.9 and ns >= 1:
            a, b = rng.randrange(ns), rng.randrange(ns)
            return {'k': 'link', 'a': a, 'i': rng.randrange(subs[a]['nE']), 'b': b, 'j': rng.randrange(subs[b]['nE'])}
        if r < 0.95:
            return {'k': 'raise', 'v': [bits(3.0)] * nL, 'm': rng.randint(0, nL)}
        return {'k': 'keep'}
    hooks_rows = lambda: [[lact() for _ in range(rng.randint(0, 4))] if p == pos else [] for p in range(n)]  # noqa: E731
    sb = [({'k': 'keep'} if rng.random() < 0.8 else lact()) if p == pos else {'k': 'keep'} for p in range(n)]
    sa = [({'k': 'keep'} if rng.random() < 0.8 else lact()) if p == pos else {'k': 'keep'} for p in range(n)]
    # selection
    ids = list(range(ns))
    r = rng.random()
    sel_none = False
    if r < 0.3:
        sel, sel_none = ids, True
    elif r < 0.75:
        sel = rng.sample(ids, rng.randint(0, ns))
    elif r < 0.85:
        sel = rng.sample(ids, rng.randint(0, ns))
        if sel:
            sel = sel + [rng.choice(sel)]
    elif r < 0.95:
        sel = rng.sample(ids, rng.randint(0, ns))
        sel.insert(rng.randint(0, len(sel)), 7)
    else:
        sel = list(reversed(ids))
    return {'n': n, 'tol': bits(sc.TOL), 'lcheck': lcheck, 'lvals': [[bits(x) for x in r] for r in lvals], 'subs': subs,
            'solve_before': sb, 'solve_after': sa, 'eval_before': hooks_rows(), 'eval_after': hooks_rows(),
            # the linker's own record of earlier solves (never read by the solver: linker_history_irrelevant)
            'status': ''.join(rng.choice('-.FES') for _ in range(n)) if rng.random() < 0.4 else '-' * n,
            'iters': [rng.choice([-1, 0, 4, 9]) for _ in range(n)] if rng.random() < 0.4 else [-1] * n,
            'opts': o, 't': t, 'sel': sel, 'sel_none': sel_none,
            'ldtype': rng.choice([None, 'int', 'float32']) if nL == 0 else None,
            'argform': rng.choice(['plain', 'plain', 'numpy']), 'selform': rng.choice(['list', 'list', 'tuple', 'keys', 'nparray'])}


# ---- oracle -----------------------------------------------------------------------------------------------------

def oracle(case, tag, L, rep):
    n, t, o, sel = case['n'], case['t'], case['opts'], case['sel']
    pos = t + n if t < 0 else t
    ns = len(case['subs'])
    unknown = [i for i in sel if i not in range(ns)]
    fresh = build(case)
    unchanged = state_str(L, case).split('|')[0:2] + state_str(L, case).split('|')[3:] == \
        state_str(fresh, case).split('|')[0:2] + state_str(fresh, case).split('|')[3:]
    if unknown:
        if tag != 'KeyError':
            rep.violate('unknown-id-no-keyerror', f'selection {sel} contains unknown id(s) {unknown}: got {tag}', case)
        return 'unknown-id'
    if o['offset'] and not (0 <= pos + o['offset'] < n):
        if tag != 'IndexError' or not unchanged:
            rep.violate('linker-offset-oob', f'offset {o["offset"]} outside span at position {pos}: got {tag}, unchanged={unchanged}', case)
        return 'offset-oob'
    log = L.log
    # unselected submodels: not evaluated, not re-stamped
    for j in range(ns):
        if j not in sel:
            if any(e.startswith(f's{j}:') for e in log):
                rep.violate('unselected-evaluated', f'submodel {j} not in selection {sel} was evaluated: {log}', case)
            m, f = L.submodels[j], fresh.submodels[j]
            if str(m.status[pos]) != str(f.status[pos]) or int(m.iterations[pos]) != int(f.iterations[pos]):
                rep.violate('unselected-restamped', f'submodel {j} not in selection {sel} had status/iterations changed', case)
    # offset seeding (observed on entry to the pre-hook)
    if o['offset'] and L.seen_at_before is not None:
        lv, sv = L.seen_at_before
        want_l = [unbits(case['lvals'][i][pos + o['offset']]) for i in range(len(case['lvals']))]
        ok = [bits(x) for x in lv] == [bits(x) for x in want_l]
        for j in set(sel):
            want = [unbits(case['subs'][j]['vals'][i][pos + o['offset']]) for i in range(case['subs'][j]['nE'])]
            ok = ok and [bits(x) for x in sv[j]] == [bits(x) for x in want]
        if not ok:
            rep.violate('linker-offset-not-seeded', f'offset {o["offset"]}: period {pos} not seeded from {pos + o["offset"]} before solving', case)
    if tag == 'Raised':
        return 'raised'
    # iteration shape
    K = sum(1 for e in log if e.startswith('eb'))
    want = ['sb']
    for k in range(1, K + 1):
        want += [f'eb{k}'] + [f's{i}:{k}' for i in sel] + [f'ea{k}']
    solved = tag == 'ret:T'
    if solved:
        want.append(f'sa{K}')
    if log != want:
        rep.violate('iteration-shape', f'calls {log} != expected shape {want} for selection {sel}', case)
        return 'shape'
    # convergence rule on the recorded check vectors (only when the pre-hook leaves values alone)
    if case['solve_before'][pos]['k'] == 'keep' and case['solve_after'][pos]['k'] == 'keep':
        vecs = L.vecs
        tol = unbits(case['tol'])
        Mx = max(o['max_iter'], 0)

        def close(a, b):
            return all(abs(x - y) < tol for va, vb in zip(a, b) for x, y in zip(va, vb))
        k0 = None
        for k in range(max(1, o['min_iter']), min(Mx, len(vecs) - 1) + 1):
            if close(vecs[k], vecs[k - 1]):
                k0 = k
                break
        st = str(L.status[pos])
        it = int(L.iterations[pos])
        if k0 is not None:
            exp = ('ret:T', '.', k0)
        else:
            exp = ('NonConvergenceError' if o['failures'] == 'raise' else 'ret:F', 'F', Mx)
        if (tag, st, it) != exp or K != exp[2]:
            rep.violate('linker-convergence', f'expected {exp} after {exp[2]} iterations; got {(tag, st, it)} after {K}', case)
        for j in set(sel):
            m = L.submodels[j]
            if str(m.status[pos]) != st:
                rep.violate('status-not-shared', f'submodel {j} status {m.status[pos]!r} != linker status {st!r}', case)
            if sel.count(j) == 1 and int(m.iterations[pos]) != it:
                rep.violate('submodel-iterations', f'submodel {j} iterations {int(m.iterations[pos])} != linker {it}', case)
    return 'solved' if solved else 'failed'


def construction_checks(ctx, rep):
    rng = ctx.sub_rng('construction')
    scripts = ['Y = X', 'Y = Y[-1] + X', 'Y = Y[-3] + X[2]', 'Y = X[1]', 'Y = X[-2] + Z[4]']
    classes = [fsic.build_model(fsic.parse_model(s)) for s in scripts]
    for _ in range(60 * ctx.scale):
        k = rng.randint(0, 4)
        chosen = [rng.choice(classes) for _ in range(k)]
        same = rng.random() < 0.6
        spans = [list(range(6)) if same or i == 0 else rng.choice([list(range(6)), list(range(7)), list(range(1, 7))])
                 for i in range(k)]
        subs = {f'm{i}': c(sp) for i, (c, sp) in enumerate(zip(chosen, spans))}
        agree = all(sp == spans[0] for sp in spans)
        try:
            L = fsic.BaseLinker(subs) if subs else fsic.BaseLinker({}, span=[])
            ok = True
        except InitialisationError:
            ok = False
        case = {'scripts': [scripts[classes.index(c)] for c in chosen], 'spans': spans}
        if ok != agree:
            rep.violate('span-mismatch', f'spans agree={agree} but construction {"succeeded" if ok else "failed"}', case)
        if ok:
            wl = max([c.LAGS for c in chosen], default=0)
            wd = max([c.LEADS for c in chosen], default=0)
            if (L.LAGS, L.LEADS, L.lags, L.leads) != (wl, wd, wl, wd):
                rep.violate('lags-leads-max', f'linker lags/leads {(L.LAGS, L.LEADS, L.lags, L.leads)} != maxima {(wl, wd)}', case)
        rep.case(json.dumps(case), nontrivial=k >= 2)
        rep.dist['construction'] += 1


def single_model_checks(ctx, rep):
    """A linker that wraps a single model and adds no equations solves it as the model solves itself."""
    rng = ctx.sub_rng('single')
    for _ in range((250 if ctx.tier == 'quick' else 30000) * ctx.scale // ctx.parts):
        a = rng.choice([rng.uniform(0.05, 0.6), rng.uniform(1.1, 2.0), -rng.uniform(0.3, 1.2), rng.uniform(0.9, 0.999)])
        b, c = rng.uniform(-0.9, 0.9), rng.uniform(-2, 2)
        script = f'Y = {a:.12f} * Z + {c:.12f} + 0.5 * Y[-1]\nZ = {b:.12f} * Y + X'
        Model = fsic.build_model(fsic.parse_model(script))
        n = 5
        x = rng.uniform(-1, 1)
        y0 = [rng.uniform(-1, 1) for _ in range(n)]
        M_ = rng.choice([1, 3, 10, 60])
        kw = dict(min_iter=rng.choice([0, 0, 2, M_]), max_iter=M_, tol=rng.choice([1e-10, 1e-6, 0.01, 0.25]),
                  offset=rng.choice([0, 0, -1, 1]), failures='ignore')
        kw['min_iter'] = min(kw['min_iter'], M_)

        def mk():
            m = Model(range(n), X=x)
            m.Y[:] = y0
            return m
        direct, wrapped = mk(), mk()
        L = fsic.BaseLinker({'a': wrapped})
        def attempt(obj):
            try:
                return ('ok',) + tuple(obj.solve(**kw)[1:])
            except Exception as e:  # noqa: BLE001
                return ('exc', type(e).__name__)
        with warnings.catch_warnings():
            warnings.simplefilter('ignore')
            rd = attempt(direct)
            rl = attempt(L)
        finite = np.all(np.isfinite(direct.values)) and np.all(np.isfinite(wrapped.values))
        same = (rd == rl and list(direct.status) == list(wrapped.status) == list(L.status)
                and list(direct.iterations) == list(wrapped.iterations) == list(L.iterations)
                and [bits(v) for v in direct.values.ravel()] == [bits(v) for v in wrapped.values.ravel()])
        case = {'script': script, 'kw': {k: v for k, v in kw.items()}, 'x': x, 'y0': y0}
        if finite and not same:
            rep.violate('single-model-linker-differs',
                        f'linker over one model: status {"".join(map(str, L.status))}/{"".join(map(str, wrapped.status))} iters '
                        f'{list(map(int, L.iterations))}; direct: {"".join(map(str, direct.status))} {list(map(int, direct.iterations))}', case)
        rep.case(json.dumps(case), nontrivial=True)
        rep.dist['single-model:' + ('finite' if finite else 'nonfinite')] += 1


def _work(ctx, rep):
    rng = ctx.sub_rng('cases')
    N = (5000 if ctx.tier == 'quick' else 600000) * ctx.scale // ctx.parts
    for chunk in range(0, N, 5000):
        cases = [gen_case(rng) for _ in range(min(5000, N - chunk))]
        impl = []
        for i, case in enumerate(cases):
            tag, L = run_impl(case)
            r = oracle(case, tag, L, rep)
            rep.dist[f'{r}:{tag}'] += 1
            impl.append(tag + '|' + state_str(L, case))
            rep.case(json.dumps(case, sort_keys=True), nontrivial=any(e.startswith('s') and ':' in e for e in L.log),
                     sample={'subs': len(case['subs']), 'sel': case['sel'], 'opts': case['opts'], 't': case['t'], 'impl': impl[-1][:150]}
                     if (chunk + i) % 997 == 0 else None)
        if not ctx.oracle_only:
            outs = ctx.drive([sc.line('linker_solve_t', c) for c in cases])
            for case, a, b in zip(cases, outs, impl):
                if a != b:
                    rep.disagree('linker solve_t: model != impl', case, a, b)
    construction_checks(ctx, rep)
    single_model_checks(ctx, rep)


def run(ctx, rep):
    import framework
    framework.parallel(_work, ctx, rep, parts=(1 if ctx.tier == 'quick' else ctx.workers))


def replay(ctx, rep, case):
    if 'script' in case or 'scripts' in case:
        print('  construction / single-model case:', json.dumps(case)[:400])
        return
    tag, L = run_impl(case)
    oracle(case, tag, L, rep)
    print('  impl :', tag + '|' + state_str(L, case))
    try:
        print('  model:', ctx.drive([sc.line('linker_solve_t', case)])[0])
    except Exception as e:  # noqa: BLE001
        print('  model: <driver unavailable>', e)
