"""Program generator for C07: scripts in the expression subset common to the Python and Fortran back-ends.

Own small grammar (independent of fsic's parser): 1-6 equations over shared variables, parameters `{a}`, errors `<e>`,
lags/leads up to 3, integer and decimal literals, + - * / **, unary minus, parentheses, exp/log/max/min/abs, long
equations that need continuation lines, occasionally dozens of variables.

An expression is a JSON-able list:
  ["int", n] | ["dec", "0.25"] | ["var", name, offset] | ["neg", x] | ["bin", op, x, y] | ["fn1", f, x] | ["fn2", f, x, y]
  | ["fnv", f, [x1, x2, x3, ...]]   (max / min with three or more arguments; `fold` reads it as nested binary calls)
with op in add/sub/mul/div/pow, f in exp/log/abs resp. max/min.

`kind_of` / `unsafe_features` are the harness's own reading of Fortran's typing rules (integer, real(4), real(8));
they decide to which *known* defect class a program outside the kind-safe fragment belongs.  They are written from
the Fortran standard, not from the Lean model (the driver's `kindSafe` is cross-checked against them)."""
from fractions import Fraction

import numpy as np

OPS = {'add': ('+', 1), 'sub': ('-', 1), 'mul': ('*', 2), 'div': ('/', 2), 'pow': ('**', 3)}

NAME_POOL = ['Y', 'C', 'I', 'G', 'X', 'Z', 'W', 'K', 'YD', 'Cd', 'H_s', 'r', 'alpha_1', 'Total', 'tt', 'x1', 'z_',
             'Inv', 'Net', 'q2', 'Btot', 'M', 'N', 'P', 'V', 'ttt', 'indexes', 'solved', 'T_t', 'E1']
PARAM_POOL = ['a', 'b', 'beta', 'theta', 'mu_1', 'tau']
ERROR_POOL = ['e', 'eps', 'u_t']

EXACT_DECS = ['0.5', '0.25', '0.125', '0.75', '1.5', '2.0', '2.5', '0.375', '3.0', '10.0', '0.0625', '1.25', '4.0',
              '0.875', '12.5', '100.0', '1.0']
INEXACT_DECS = ['0.1', '0.2', '0.3', '0.7', '1.1', '0.05', '0.9', '3.14159', '0.33', '2.71828', '0.01']


# ---------------------------------------------------------------------------------------------------------------
# literals

def dec_parts(text):
    """'12.50' -> (1250, 2): digits and number of digits after the point."""
    whole, _, frac = text.partition('.')
    return int((whole or '0') + frac), len(frac)


def dec_fraction(text):
    m, e = dec_parts(text)
    return Fraction(m, 10 ** e)


def round_f32(q):
    """Correctly rounded binary32 value of the rational q (round to nearest, ties to even)."""
    c = np.float32(float(q))
    best = c
    for cand in (np.nextafter(c, np.float32(-np.inf)), np.nextafter(c, np.float32(np.inf))):
        if not np.isfinite(cand):
            continue
        d_best = abs(Fraction(float(best)) - q)
        d_cand = abs(Fraction(float(cand)) - q)
        if d_cand < d_best or (d_cand == d_best and (int(cand.view(np.uint32)) & 1) == 0):
            best = cand
    return best


def lit_bits(text):
    """(real(4) bit pattern, real(8) bit pattern) of the decimal literal, both correctly rounded."""
    q = dec_fraction(text)
    r4 = round_f32(q)
    r8 = np.float64(float(q))
    return int(r4.view(np.uint32)), int(r8.view(np.uint64))


def dec_exact4(text):
    r4, r8 = lit_bits(text)
    return float(np.uint32(r4).view(np.float32)) == float(np.uint64(r8).view(np.float64))


# ---------------------------------------------------------------------------------------------------------------
# arity: max / min take any number (>= 2) of arguments in Python and in Fortran

def fold(e):
    """The expression with every n-ary max/min (n >= 3) read as the left fold of the binary one:
    max(a, b, c) = max(max(a, b), c) — the same value in both languages on finite numbers, and the same Fortran
    typing verdict (all arguments must be of one type).  The typing functions below and the Lean model work on the
    folded tree; the script text keeps the n-ary call."""
    k = e[0]
    if k in ('int', 'dec', 'var'):
        return e
    if k == 'neg':
        return ['neg', fold(e[1])]
    if k == 'bin':
        return ['bin', e[1], fold(e[2]), fold(e[3])]
    if k == 'fn1':
        return ['fn1', e[1], fold(e[2])]
    if k == 'fn2':
        return ['fn2', e[1], fold(e[2]), fold(e[3])]
    if k == 'fnv':
        args = [fold(a) for a in e[2]]
        acc = ['fn2', e[1], args[0], args[1]]
        for a in args[2:]:
            acc = ['fn2', e[1], acc, a]
        return acc
    raise AssertionError(e)


# ---------------------------------------------------------------------------------------------------------------
# Fortran typing of an expression

def kind_of(e):
    if e[0] == 'fnv':
        return kind_of(fold(e))
    k = e[0]
    if k == 'int':
        return 'int'
    if k == 'dec':
        return 'r4'
    if k == 'var':
        return 'r8'
    if k == 'neg':
        return kind_of(e[1])
    if k == 'bin':
        a, b = kind_of(e[2]), kind_of(e[3])
        if a == 'int' and b == 'int':
            return 'int'
        if a == 'r8' or b == 'r8':
            return 'r8'
        return 'r4'
    if k == 'fn1':
        return kind_of(e[2])
    if k == 'fn2':
        a, b = kind_of(e[2]), kind_of(e[3])
        if a == 'int' and b == 'int':
            return 'int'
        if a == 'r4' and b == 'r4':
            return 'r4'
        return 'r8'
    raise AssertionError(e)


def int_val(e):
    if e[0] == 'fnv':
        return int_val(fold(e))
    """Exact value of an integer-kind constant expression under Fortran integer arithmetic (unbounded), or None."""
    k = e[0]
    if k == 'int':
        return e[1]
    if k == 'neg':
        v = int_val(e[1])
        return None if v is None else -v
    if k == 'bin':
        a, b = int_val(e[2]), int_val(e[3])
        if a is None or b is None:
            return None
        op = e[1]
        if op == 'add':
            return a + b
        if op == 'sub':
            return a - b
        if op == 'mul':
            return a * b
        if op == 'div':
            if b == 0:
                return 0
            q = abs(a) // abs(b)
            return q if (a >= 0) == (b >= 0) else -q
        if op == 'pow':
            if b >= 0:
                return a ** b
            d = a ** (-b)
            if d == 0:
                return 0
            q = 1 // abs(d)
            return q if d > 0 else -q
    if k == 'fn1' and e[1] == 'abs':
        v = int_val(e[2])
        return None if v is None else abs(v)
    if k == 'fn2':
        a, b = int_val(e[2]), int_val(e[3])
        if a is None or b is None:
            return None
        return max(a, b) if e[1] == 'max' else min(a, b)
    return None


def unsafe_features(e, out=None):
    """Set of reasons why the expression is outside the fragment on which Fortran and Python must agree exactly.
    Keys are the finding keys (or 'powi' = real ** integer, which differs only by rounding)."""
    out = set() if out is None else out
    if e[0] == 'fnv':
        return unsafe_features(fold(e), out)
    k = e[0]
    if k == 'int':
        if not (-2 ** 31 <= e[1] <= 2 ** 31 - 1):
            out.add('int-overflow')
    elif k == 'dec':
        if not dec_exact4(e[1]):
            out.add('single-precision-literal')
    elif k == 'neg':
        unsafe_features(e[1], out)
    elif k == 'bin':
        unsafe_features(e[2], out)
        unsafe_features(e[3], out)
        a, b = kind_of(e[2]), kind_of(e[3])
        op = e[1]
        if a == 'int' and b == 'int':
            if op == 'div':
                out.add('int-division')
            elif op == 'pow':
                v = int_val(e[3])
                if v is None or v < 0:
                    out.add('int-power-negative-exponent')
            v = int_val(e)
            if v is not None and not (-2 ** 31 <= v <= 2 ** 31 - 1):
                out.add('int-overflow')
        elif a == 'r8' and b == 'int':
            if op == 'pow':
                out.add('powi')
        elif a == 'r8' or b == 'r8':
            pass
        else:
            out.add('single-precision-arithmetic')
            if b == 'int' and op == 'pow':
                out.add('powi')
    elif k == 'fn1':
        unsafe_features(e[2], out)
        a = kind_of(e[2])
        if a == 'int' and e[1] != 'abs':
            out.add('int-arg-intrinsic-compile')
        elif a == 'r4':
            out.add('single-precision-arithmetic')
    elif k == 'fn2':
        unsafe_features(e[2], out)
        unsafe_features(e[3], out)
        a, b = kind_of(e[2]), kind_of(e[3])
        if (a == 'int') != (b == 'int'):
            out.add('int-arg-intrinsic-compile')
        elif a == 'r4' and b == 'r4':
            out.add('single-precision-arithmetic')
    return out


def uses_libm(e):
    if e[0] == 'fnv':
        return any(uses_libm(a) for a in e[2])
    k = e[0]
    if k in ('int', 'dec', 'var'):
        return False
    if k == 'neg':
        return uses_libm(e[1])
    if k == 'bin':
        return e[1] == 'pow' and kind_of(e) != 'int' or uses_libm(e[2]) or uses_libm(e[3])
    if k == 'fn1':
        return e[1] in ('exp', 'log') or uses_libm(e[2])
    return uses_libm(e[2]) or uses_libm(e[3])


def variables(e, out=None):
    out = [] if out is None else out
    k = e[0]
    if k == 'var':
        out.append((e[1], e[2]))
    elif k == 'neg':
        variables(e[1], out)
    elif k == 'bin' or k == 'fn2':
        variables(e[2], out)
        variables(e[3], out)
    elif k == 'fn1':
        variables(e[2], out)
    elif k == 'fnv':
        for a in e[2]:
            variables(a, out)
    return out


# ---------------------------------------------------------------------------------------------------------------
# rendering (fsic script syntax)

def render(e, env, rng=None, prec=0, loose=False):
    """Text of the expression.  `env` maps a name to its category ('v', 'p', 'e').  Unary minus is always written as
    `(-x)` with `x` at power level, so Python and Fortran read the same tree; `loose=True` writes a bare `-x`
    wherever Python accepts it (used only by the programs of the `loose-minus` class)."""
    k = e[0]
    if k == 'int':
        return str(e[1])
    if k == 'dec':
        return e[1]
    if k == 'var':
        name, off = e[1], e[2]
        cat = env[name]
        base = '{' + name + '}' if cat == 'p' else '<' + name + '>' if cat == 'e' else name
        if off:
            base += f'[{off}]'
        return base
    if k == 'neg':
        inner = render(e[1], env, rng, 3, loose)
        if loose and prec <= 2:
            return '-' + inner
        return '(-' + inner + ')'
    if k == 'bin':
        sym, p = OPS[e[1]]
        if e[1] == 'pow':
            lhs = render(e[2], env, rng, p + 1, loose)
            rhs = render(e[3], env, rng, p, loose)
        else:
            lhs = render(e[2], env, rng, p, loose)
            rhs = render(e[3], env, rng, p + 1, loose)
        sp = ' ' if rng is None or rng.random() < 0.85 else ''
        s = lhs + sp + sym + sp + rhs
        if p < prec or (rng is not None and rng.random() < 0.08):
            s = '(' + s + ')'
        return s
    if k == 'fn1':
        return f'{e[1]}({render(e[2], env, rng, 0, loose)})'
    if k == 'fn2':
        return f'{e[1]}({render(e[2], env, rng, 0, loose)}, {render(e[3], env, rng, 0, loose)})'
    if k == 'fnv':
        return f"{e[1]}({', '.join(render(a, env, rng, 0, loose) for a in e[2])})"
    raise AssertionError(e)


def script_of(prog, rng=None):
    env = prog['env']
    lines = []
    for eq in prog['eqs']:
        off = eq.get('off', 0)
        lhs = eq['lhs'] + (f'[{off}]' if off else '')   # the defined variable may carry a lag/lead of its own
        lines.append(f"{lhs} = {render(eq['rhs'], env, rng, 0, prog.get('loose', False))}")
    return '\n'.join(lines)


# ---------------------------------------------------------------------------------------------------------------
# random programs

class Gen:
    def __init__(self, rng, safe=True, libm=True, max_off=3):
        self.rng = rng
        self.safe = safe
        self.libm = libm
        self.max_off = max_off

    def names(self, n_endo, n_exo, n_par, n_err):
        r = self.rng
        pool = r.sample(NAME_POOL, min(len(NAME_POOL), n_endo + n_exo))
        while len(pool) < n_endo + n_exo:
            pool.append(f'V{len(pool)}')
        endo, exo = pool[:n_endo], pool[n_endo:n_endo + n_exo]
        par = r.sample(PARAM_POOL, min(n_par, len(PARAM_POOL)))
        err = r.sample(ERROR_POOL, min(n_err, len(ERROR_POOL)))
        return endo, exo, par, err

    def exact_dec(self):
        return ['dec', self.rng.choice(EXACT_DECS)]

    def small_int(self):
        return ['int', self.rng.choice([1, 2, 2, 3, 4, 5, 7, 10, 12, 100])]

    def coef(self):
        """A literal coefficient that keeps iterations tame."""
        return ['dec', self.rng.choice(['0.5', '0.25', '0.125', '0.375', '0.0625', '0.75'])]

    def var(self, pools, lhs_index):
        r = self.rng
        endo, exo, par, err = pools
        cat = r.random()
        if cat < 0.45 and endo:
            name = r.choice(endo)
            off = r.choice([0, 0, -1, -1, -2, -3, 1, 2]) if self.max_off else 0
        elif cat < 0.8 and exo:
            name = r.choice(exo)
            off = r.choice([0, 0, 0, -1, -2, 1, 3]) if self.max_off else 0
        elif cat < 0.92 and par:
            return ['var', r.choice(par), 0]
        elif err:
            return ['var', r.choice(err), 0]
        else:
            name = r.choice(endo + exo)
            off = 0
        off = max(-self.max_off, min(self.max_off, off))
        return ['var', name, off]

    def r8(self, pools, depth, lhs_index=0):
        """A kind-safe expression of kind real(8) whose value stays moderate on data in [-2, 2]."""
        r = self.rng
        if depth <= 0 or r.random() < 0.2:
            return self.var(pools, lhs_index)
        c = r.random()
        sub = lambda: self.r8(pools, depth - 1, lhs_index)  # noqa: E731
        if c < 0.30:
            op = r.choice(['add', 'sub', 'add', 'sub', 'mul'])
            return ['bin', op, sub(), sub()]
        if c < 0.45:
            op = r.choice(['mul', 'mul', 'add', 'sub'])
            lit = self.coef() if r.random() < 0.7 else (self.small_int() if r.random() < 0.5 else self.exact_dec())
            return ['bin', op, lit, sub()] if r.random() < 0.6 else ['bin', op, sub(), lit]
        if c < 0.55:
            den = ['bin', 'add', ['fn1', 'abs', sub()], r.choice([self.exact_dec(), ['int', r.choice([1, 2, 3])]])]
            if r.random() < 0.4:
                den = r.choice([['int', r.choice([2, 3, 4, 7])], ['dec', r.choice(['2.0', '4.0', '1.5', '2.5'])]])
            return ['bin', 'div', sub(), den]
        if c < 0.62:
            return ['neg', sub()]
        if c < 0.68:
            return ['bin', 'mul', ['neg', self.coef()], sub()]
        if c < 0.76:
            f = r.choice(['max', 'min'])
            if r.random() < 0.35:   # three or four arguments
                args = [sub()] + [sub() if r.random() < 0.6 else self.exact_dec() for _ in range(r.choice([2, 2, 3]))]
                r.shuffle(args)
                if all(a[0] == 'dec' for a in args):
                    args[0] = sub()
                return ['fnv', f, args]
            return ['fn2', f, sub(), sub() if r.random() < 0.6 else self.exact_dec()]
        if c < 0.82:
            return ['fn1', 'abs', sub()]
        if c < 0.86:  # integer-constant subexpression next to a real(8) operand
            k = r.choice([['bin', 'mul', self.small_int(), self.small_int()],
                          ['bin', 'add', self.small_int(), self.small_int()],
                          ['bin', 'sub', self.small_int(), ['int', 1]],
                          ['bin', 'pow', ['int', 2], ['int', r.choice([0, 1, 2, 3])]],
                          ['neg', self.small_int()],
                          ['fn1', 'abs', ['neg', self.small_int()]],
                          ['fn2', 'max', self.small_int(), self.small_int()]])
            return ['bin', r.choice(['mul', 'add', 'sub']), k, sub()]
        if not self.libm:
            return ['bin', 'add', sub(), sub()]
        if c < 0.90:
            return ['fn1', 'exp', ['neg', ['fn1', 'abs', sub()]]]
        if c < 0.94:
            return ['fn1', 'log', ['bin', 'add', ['fn1', 'abs', sub()], self.exact_dec()]]
        if c < 0.97:
            base = ['bin', 'add', ['fn1', 'abs', sub()], ['dec', r.choice(['0.5', '1.0', '1.5'])]]
            ex = r.choice([['dec', '0.5'], ['dec', '1.5'], ['neg', ['dec', '0.5']], self.var(pools, lhs_index)])
            if ex[0] == 'var':
                ex = ['fn2', 'min', ['fn1', 'abs', ex], ['dec', '2.0']]
            return ['bin', 'pow', base, ex]
        return ['bin', 'pow', sub(), ['int', r.choice([2, 2, 3])]]   # real ** integer ('powi': rounding only)

    def program(self, n_eq=None, depth=None, big=False):
        r = self.rng
        n_eq = n_eq or r.choice([1, 1, 2, 2, 3, 3, 4, 5, 6])
        n_exo = r.choice([1, 2, 2, 3, 4]) if not big else r.choice([24, 30, 40])
        n_par = r.choice([0, 0, 1, 2, 3])
        n_err = r.choice([0, 0, 0, 1, 2])
        endo, exo, par, err = self.names(n_eq, n_exo, n_par, n_err)
        pools = (endo, exo, par, err)
        eqs = []
        for i, lhs in enumerate(endo):
            d = depth if depth is not None else r.choice([1, 2, 2, 3, 3, 4])
            rhs = self.r8(pools, d, i)
            if big and i == 0:   # a long sum over dozens of variables: two-digit numbers, several continuation lines
                for x in exo:
                    rhs = ['bin', r.choice(['add', 'sub']), rhs,
                           ['bin', 'mul', self.coef(), ['var', x, r.choice([0, 0, -1, 1])]]]
            # damp so that fixed-point iteration is mostly contractive and values stay finite
            rhs = ['bin', 'mul', self.coef(), rhs] if r.random() < 0.7 else rhs
            if r.random() < 0.5:
                rhs = ['bin', 'add', rhs, self.var(pools, i)]
            eq = {'lhs': lhs, 'rhs': rhs}
            if self.max_off and r.random() < 0.22:   # indexed left-hand side: `H[1] = …`, `R[-1] = …`
                eq['off'] = r.choice([-2, -1, -1, 1, 1, 2])
            eqs.append(eq)
        return finish_program(eqs, par, err, r)


def finish_program(eqs, par=(), err=(), rng=None, loose=False):
    """Derive the name categories the way the grammar defines them and render the script."""
    env = {}
    for eq in eqs:
        env[eq['lhs']] = 'v'
    for eq in eqs:
        for name, _ in variables(eq['rhs']):
            if name in par:
                env[name] = 'p'
            elif name in err:
                env[name] = 'e'
            else:
                env.setdefault(name, 'v')
    prog = {'eqs': eqs, 'env': env, 'loose': loose}
    prog['script'] = script_of(prog, rng)
    feats = set()
    for eq in eqs:
        feats |= unsafe_features(eq['rhs'])
    prog['unsafe'] = sorted(feats)
    prog['libm'] = any(uses_libm(eq['rhs']) for eq in eqs)
    return prog
