"""Reflected tables for the Fortran back-end (C07): what fsic/fortran.py says *now* about error and option codes.

* `fortranTemplateCodes`  — every `integer :: name = value` declared inside the `failure_codes` and `error_codes`
                            modules of FORTRAN_TEMPLATE (parsed from the template text): (module, name, value)
* `fortranFailureOptions` / `fortranErrorOptions` — `FortranEngine._FAILURE_OPTIONS` / `_ERROR_OPTIONS`
* `fortranWrapperDispatch` — for each wrapper method, the integer literals its source compares `error_code` with,
                            together with the `errors == '<mode>'` test in the same condition ("" if none), sorted:
                            (method, literal, mode).  Parsed from `inspect.getsource` with `ast`.
* `fortranTemplateUses`   — the code names assigned to `error_code` inside the template's subroutines, sorted.
"""
import ast, inspect, re, textwrap


def lstr(s):
    return '"' + s.replace('\\', '\\\\').replace('"', '\\"') + '"'


def template_codes(template):
    out = []
    for mod in ('failure_codes', 'error_codes'):
        m = re.search(r'^module\s+' + mod + r'\b(.*?)^end module\s+' + mod, template, re.S | re.M)
        if not m:
            continue
        for line in m.group(1).splitlines():
            line = line.split('!')[0].strip()
            mm = re.match(r'integer\s*::\s*(.*)$', line)
            if not mm:
                continue
            for part in mm.group(1).split(','):
                nv = re.match(r'\s*([A-Za-z_][A-Za-z_0-9]*)\s*=\s*(-?\d+)\s*$', part)
                if nv:
                    out.append((mod, nv.group(1), int(nv.group(2))))
    return out


def template_uses(template):
    names = set(re.findall(r'error_code\s*=\s*([A-Za-z_][A-Za-z_0-9]*)', template))
    return sorted(names)


def _const_ints(node):
    if isinstance(node, ast.Constant) and isinstance(node.value, int) and not isinstance(node.value, bool):
        return [node.value]
    if isinstance(node, ast.UnaryOp) and isinstance(node.op, ast.USub):
        return [-v for v in _const_ints(node.operand)]
    if isinstance(node, (ast.Tuple, ast.List, ast.Set)):
        return [v for e in node.elts for v in _const_ints(e)]
    return []


def _error_code_literals(test):
    """(literals compared with `error_code`, errors-mode string tested alongside or '') inside one condition."""
    lits, mode = [], ''
    for node in ast.walk(test):
        if isinstance(node, ast.Compare) and isinstance(node.left, ast.Name):
            if node.left.id == 'error_code':
                for c in node.comparators:
                    lits += _const_ints(c)
            elif node.left.id == 'errors' and len(node.comparators) == 1 and isinstance(node.comparators[0], ast.Constant) \
                    and isinstance(node.comparators[0].value, str) and isinstance(node.ops[0], ast.Eq):
                mode = node.comparators[0].value
    return lits, mode


def wrapper_dispatch(cls):
    out = set()
    for meth in ('solve', 'solve_t', '_evaluate'):
        src = textwrap.dedent(inspect.getsource(getattr(cls, meth)))
        for node in ast.walk(ast.parse(src)):
            if isinstance(node, ast.If):
                lits, mode = _error_code_literals(node.test)
                for v in lits:
                    out.add((meth, v, mode))
    return sorted(out)


def tables():
    from fsic import fortran
    L = []
    L.append('/-- Integer codes declared in FORTRAN_TEMPLATE: (module, name, value). -/')
    L.append('def fortranTemplateCodes : List (String × String × Int) := [' + ', '.join(
        f'({lstr(m)}, {lstr(n)}, ({v} : Int))' for m, n, v in template_codes(fortran.FORTRAN_TEMPLATE)) + ']')
    L.append('')
    L.append('/-- Code names the template assigns to `error_code`. -/')
    L.append('def fortranTemplateUses : List String := [' + ', '.join(lstr(n) for n in template_uses(fortran.FORTRAN_TEMPLATE)) + ']')
    L.append('')
    L.append('/-- `FortranEngine._FAILURE_OPTIONS`. -/')
    L.append('def fortranFailureOptions : List (String × Int) := [' + ', '.join(
        f'({lstr(k)}, ({int(v)} : Int))' for k, v in fortran.FortranEngine._FAILURE_OPTIONS.items()) + ']')
    L.append('')
    L.append('/-- `FortranEngine._ERROR_OPTIONS`. -/')
    L.append('def fortranErrorOptions : List (String × Int) := [' + ', '.join(
        f'({lstr(k)}, ({int(v)} : Int))' for k, v in fortran.FortranEngine._ERROR_OPTIONS.items()) + ']')
    L.append('')
    L.append('/-- Literals the wrapper methods compare `error_code` with: (method, literal, errors mode tested alongside). -/')
    L.append('def fortranWrapperDispatch : List (String × Int × String) := [' + ', '.join(
        f'({lstr(m)}, ({v} : Int), {lstr(mode)})' for m, v, mode in wrapper_dispatch(fortran.FortranEngine)) + ']')
    return L


if __name__ == '__main__':
    print('\n'.join(tables()))
