"""Scripted models and canonicalisation shared by the solver-side properties (C02, C04, C05, C06, C17).

A *case* is a JSON-able dict (floats as IEEE bit patterns) that both sides consume:
  the real code through `run_impl`, the Lean model through the driver kinds `solve_t` / `solve` / `solve_period`.
"""
import json, struct, warnings

import numpy as np

import fsic
from fsic.exceptions import NonConvergenceError, SolutionError


def bits(x):
    """IEEE-754 bit pattern of a double; every NaN is canonicalised (sign/payload of a NaN are not observable
    through fsic and Lean's `Float.toBits` canonicalises too)."""
    if isinstance(x, (complex, np.complexfloating)):     # object-dtype series can hold what float64 would call NaN
        x = x.real if x.imag == 0 else float('nan')
    x = float(x)
    if x != x:
        return 0x7FF8000000000000
    return struct.unpack('<Q', struct.pack('<d', x))[0]


def unbits(b):
    return struct.unpack('<d', struct.pack('<Q', int(b)))[0]


_CLASSES = {}


class ScriptedWarning(Warning):
    """A warning category of the user's own (not a RuntimeWarning)."""


class ScriptedError(Exception):
    """An exception class of the user's own."""


def scripted_exception(kind):
    """The exception a scripted pass or hook raises.  Whatever its class, message or lack of arguments, the solver
    must treat it as 'an exception inside an evaluation pass / hook'."""
    from fsic.exceptions import NonConvergenceError as NCE, SolutionError as SE
    table = {
        'RuntimeError': lambda: RuntimeError('scripted exception'),
        'ValueError()': lambda: ValueError(),                 # no arguments: e.args == ()
        'AssertionError()': lambda: AssertionError(),
        'StopIteration()': lambda: StopIteration(),
        'KeyError': lambda: KeyError('missing'),
        'ZeroDivisionError': lambda: ZeroDivisionError('division by zero'),
        'ScriptedError': lambda: ScriptedError('user-defined', 2),
        'SolutionError': lambda: SE('a nested solve failed'),            # fsic's own classes, raised by user code
        'NonConvergenceError': lambda: NCE('a nested solve did not converge'),
        'IndexError': lambda: IndexError('list index out of range'),
    }
    return table[kind or 'RuntimeError']()


EXCEPTION_KINDS = ['RuntimeError', 'RuntimeError', 'ValueError()', 'AssertionError()', 'StopIteration()', 'KeyError',
                   'ZeroDivisionError', 'ScriptedError', 'SolutionError', 'NonConvergenceError', 'IndexError']


WARNING_CATEGORIES = {'RuntimeWarning': RuntimeWarning, 'UserWarning': UserWarning, 'FutureWarning': FutureWarning,
                      'DeprecationWarning': DeprecationWarning, 'Warning': Warning, 'ScriptedWarning': ScriptedWarning}


# names of public members of the container / model classes: legal variable names (the generated `_evaluate` and the
# solver address `self._size` / `__dict__['_size']` directly), which only a careless `getattr(self, name)` confuses
MEMBER_NAMES = ['size', 'copy', 'eval', 'nbytes', 'LAGS', 'CODE', 'reindex', 'values', 'solve_t', 'to_dataframe', 'strict_', 'NAMES_']
NAME_STYLES = ['plain', 'plain', 'plain', 'm0', 'm1', 'm2']


def names_for(style, nE):
    if style in (None, 'plain'):
        return [f'E{i}' for i in range(nE)]
    k = int(style[1:])
    pool = MEMBER_NAMES[3 * k:] + MEMBER_NAMES[:3 * k]
    return [pool[i] if i < len(pool) else f'E{i}' for i in range(nE)]


def names_of(case):
    return names_for(case.get('names'), case['nE'])


def scripted_class(nE, check, mixins=(), exo=('X',), style=None):
    """BaseModel subclass with endogenous E0..E{nE-1} (or member-like names, see `names_for`), CHECK = the given
    subset, whose passes and hooks play a script and which logs every solver-initiated call and the check vector after
    each pass."""
    key = (nE, tuple(check), tuple(mixins), tuple(exo), style or 'plain')
    if key in _CLASSES:
        return _CLASSES[key]
    names = names_for(style, nE)
    if check == 'ALL':
        check = list(range(nE))

    class Scripted(fsic.BaseModel):
        ENDOGENOUS = list(names)
        EXOGENOUS = list(exo)
        NAMES = ENDOGENOUS + EXOGENOUS
        CHECK = [names[i] for i in check]

        def _put(self, name, t, x):
            """Store one value.  `write_mode` = 'rebind': replace the whole series by a new list (the container then
            stores a NEW array under the name), as user code in a hook or `_evaluate` may legitimately do."""
            if self.__dict__.get('write_mode', 'inplace') == 'rebind':
                arr = [float(y) for y in self.__dict__['_' + name]]
                arr[t] = x
                setattr(self, name, arr)
            else:
                self.__dict__['_' + name][t] = x

        def _play(self, t, act):
            k = act['k']
            if k == 'keep':
                return
            v = [unbits(b) for b in act.get('v', [])]
            m = act.get('m', 0)
            if k == 'set':
                for i, x in enumerate(v[:nE]):
                    self._put(names[i], t, x)
            elif k == 'iadd':       # exact integer step on an integer-dtype model (no float in between)
                for nm in names:
                    self.__dict__['_' + nm][t] += int(act['d'])
            elif k == 'raise':
                for i, x in enumerate(v[:min(m, nE)]):
                    self._put(names[i], t, x)
                raise scripted_exception(act.get('exc'))
            elif k == 'warn':
                for i, x in enumerate(v[:min(m, nE)]):
                    self._put(names[i], t, x)
                warnings.warn('scripted warning', WARNING_CATEGORIES[act.get('cat', 'RuntimeWarning')])
                for i, x in enumerate(v[:nE]):
                    if i >= m:
                        self._put(names[i], t, x)
            else:
                raise AssertionError(k)

        def _pos(self, t):
            return t + len(self.span) if t < 0 else t

        def _cv(self, t):
            return [float(self.__dict__['_' + n][t]) for n in self.check]

        def solve_t_before(self, t, *a, **kw):
            self.calls.append('b')
            self.__dict__['seen_at_before'] = [float(self.__dict__['_' + n][t]) for n in names]
            self.__dict__['v0'] = self._cv(t)
            acts = self.before_script
            p = self._pos(t)
            if self.__dict__.get('hook_style') == 'swallow':
                # an override that does not forward the optional `iteration` keyword (it is documented as optional)
                kw = {k: v for k, v in kw.items() if k != 'iteration'}
            super().solve_t_before(t, *a, **kw)
            if p < len(acts):
                self._play(t, acts[p])

        def solve_t_after(self, t, *a, iteration=None, **kw):
            self.calls.append(f'a{iteration}')
            acts = self.after_script
            p = self._pos(t)
            super().solve_t_after(t, *a, iteration=iteration, **kw)
            if p < len(acts):
                self._play(t, acts[p])

        def _evaluate(self, t, *a, iteration=None, **kw):
            self.calls.append(f'e{iteration}')
            p = self._pos(t)
            row = self.script[p] if p < len(self.script) else []
            act = row[iteration - 1] if 0 <= iteration - 1 < len(row) else {'k': 'keep'}
            try:
                super()._evaluate(t, *a, iteration=iteration, **kw)
                self._play(t, act)
            finally:
                self.passes.append((p, iteration, self._cv(t), [float(self.__dict__['_' + n][t]) for n in names]))

    if mixins:  # mixins go on top, so that e.g. the tracer snapshots *after* the scripted pass has played
        body = {}
        if any(c.__name__ == 'AliasMixin' for c in mixins):
            # every endogenous variable gets an alias and an alias of that alias
            body['ALIASES'] = {**{'AL_' + nm: nm for nm in names}, **{'AL2_' + nm: 'AL_' + nm for nm in names}}
        Scripted = type('ScriptedMixed', (*mixins, Scripted), body)
    _CLASSES[key] = Scripted
    return Scripted


PROVENANCES = ['fresh', 'fresh', 'copy', 'reindexed', 'reindexed']


def wider(span):
    """A span of the same type that contains `span`'s labels two positions further right, plus one label after them
    (None when that cannot be built: empty or repeated labels)."""
    labs = list(span)
    if not labs or len(set(map(repr, labs))) != len(labs):
        return None
    try:
        import pandas as pd
    except Exception:  # noqa: BLE001
        pd = None
    if isinstance(span, range):
        return range(span.start - 2 * span.step, span.stop + span.step, span.step)
    if pd is not None and isinstance(span, (pd.PeriodIndex, pd.DatetimeIndex)):
        if len(labs) < 2 and getattr(span, 'freq', None) is None:
            return None
        freq = span.freq
        if isinstance(span, pd.PeriodIndex):
            return pd.period_range(start=span[0] - 2, periods=len(labs) + 3, freq=freq)
        return pd.date_range(start=span[0] - 2 * freq, periods=len(labs) + 3, freq=freq)
    if all(isinstance(x, (int, np.integer)) and not isinstance(x, bool) for x in labs):
        lo, hi = min(labs), max(labs)
        new = [lo - 2, lo - 1] + labs + [hi + 1]
    elif all(isinstance(x, (float, np.floating)) for x in labs):
        lo, hi = min(labs), max(labs)
        new = [lo - 2.0, lo - 1.0] + labs + [hi + 1.0]
    elif all(isinstance(x, str) for x in labs):
        new = ['__pre1', '__pre2'] + labs + ['__post']
        if len(set(new)) != len(new):
            return None
    else:
        new = ['__pre1', '__pre2'] + labs + ['__post']
    if pd is not None and isinstance(span, pd.Index):
        return pd.Index(new)
    if isinstance(span, np.ndarray):
        return np.array(new) if not isinstance(new[0], str) or span.dtype.kind == 'U' else None
    if isinstance(span, tuple):
        return tuple(new)
    return list(new)


def warm(m, names=()):
    """Use an instance the way a user would before the call under observation: default range, a short solve, label
    lookups — anything a cache or a remembered range could latch on to."""
    with warnings.catch_warnings():
        warnings.simplefilter('ignore')
        for f in (lambda: list(m.iter_periods()),
                  lambda: m.solve(max_iter=1, failures='ignore', errors='ignore')):
            try:
                f()
            except Exception:  # noqa: BLE001
                pass
        for lab in list(m.span)[:8]:
            for f in (lambda: m.solve_period(lab, max_iter=1, failures='ignore', errors='ignore'),
                      lambda: [m[nm, lab] for nm in names]):
                try:
                    f()
                except Exception:  # noqa: BLE001
                    pass


def with_provenance(make, span, prov, names=(), prepare=None):
    """An instance on `span` obtained the way `prov` says: constructed ('fresh'), a copy() of a used instance, or a used
    instance of a wider span reindex()ed down to `span` (labels move by two positions)."""
    if prov == 'reindexed':
        w = wider(span)
        if w is not None:
            m0 = make(w)
            if prepare:
                prepare(m0)
            warm(m0, names)
            try:
                return m0.reindex(span)
            except Exception:  # noqa: BLE001
                pass
    if prov == 'copy':
        m0 = make(span)
        if prepare:
            prepare(m0)
        warm(m0, names)
        return m0.copy()
    return make(span)


_SWALLOW = {}


def swallowing(cls):
    """A user subclass sitting in FRONT of every mixin whose pre-solution hook override does not forward the optional
    `iteration` keyword to `super()` (the keyword is documented as optional)."""
    if cls not in _SWALLOW:
        class Swallowing(cls):
            def solve_t_before(self, t, *a, **kw):
                kw.pop('iteration', None)
                super().solve_t_before(t, *a, **kw)
        _SWALLOW[cls] = Swallowing
    return _SWALLOW[cls]


def build_instance(case, mixins=(), span=None, exo=('X',)):
    extra = tuple(c for c in mix_classes(case.get('mix')) if c not in mixins)
    # `check_edit`: the class declares every endogenous variable as a check variable and the INSTANCE's `check` list is
    # then edited down to the case's subset (what the solver must use is the instance's list)
    edit = bool(case.get('check_edit'))
    cls = scripted_class(case['nE'], 'ALL' if edit else case['check'], tuple(mixins) + extra, exo, case.get('names'))
    if case.get('hook_style') == 'swallow':
        cls = swallowing(cls)
    n = case['n']
    names = names_of(case)

    def prepare(m0):        # what the scripted hooks need in order to run at all
        m0.__dict__.update(script=[], before_script=[], after_script=[], calls=[], passes=[], v0=None,
                           seen_at_before=None, write_mode='inplace')
    dtype = {'int': int, 'float32': np.float32, 'object': object}.get(case.get('dtype'))
    make = (lambda sp: cls(sp, dtype=dtype)) if dtype is not None else cls
    m = with_provenance(make, list(range(n)) if span is None else span, case.get('prov', 'fresh'), names, prepare)
    for i, row in enumerate(case['vals']):
        m.__dict__['_' + names[i]][:] = [unbits(b) for b in row]
    m.status[:] = list(case['status'])
    m.iterations[:] = case['iters']
    d = m.__dict__
    d['script'] = case['script']
    d['before_script'] = case['before']
    d['after_script'] = case['after']
    d['calls'] = []
    d['passes'] = []
    d['v0'] = None
    d['seen_at_before'] = None
    d['write_mode'] = case.get('write', 'inplace')
    d['hook_style'] = case.get('hook_style', 'forward')
    if edit:
        m.check = [names[i] for i in case['check']]
    if case.get('strict'):
        m.strict = True         # the documented option: no new attributes; solving must be unaffected
    return m


def vary_implementation_side(case, rng):
    """Choices that the property (and the model) cannot see but the code might: how user code stores a value
    (in place / by rebinding the series to a new list) and the category of a warning."""
    case['write'] = rng.choice(['inplace', 'inplace', 'rebind'])
    case['prov'] = rng.choice(PROVENANCES)
    case['names'] = rng.choice(NAME_STYLES)
    case['argform'] = rng.choice(['plain', 'plain', 'numpy', 'omit'])
    case['mix'] = rng.choice(MIXES)
    case['check_edit'] = rng.random() < 0.3
    case['strict'] = rng.random() < 0.3
    case['hook_style'] = rng.choice(['forward', 'forward', 'swallow'])
    for acts in case['script'] + [case['before'], case['after']]:
        for a in acts:
            if a.get('k') == 'raise':
                a['exc'] = rng.choice(EXCEPTION_KINDS)
    if rng.random() < 0.4:      # the record of earlier solves (visible to the model too: it must never matter)
        case['status'] = ''.join(rng.choice('-.FES') for _ in range(case['n']))
        case['iters'] = [rng.choice([-1, 0, 3, 7]) for _ in range(case['n'])]
    cats = list(WARNING_CATEGORIES)
    for acts in case['script'] + [case['before'], case['after']]:
        for a in acts:
            if a.get('k') == 'warn':
                a['cat'] = rng.choice(cats)
    return case


SPAN_KINDS = ['range', 'list', 'nparray', 'npshift', 'npstr', 'tuple']


def span_of(kind, n):
    if kind == 'range':
        return range(n)
    if kind == 'list':
        return list(range(n))
    if kind == 'tuple':
        return tuple(range(10, 10 + n))
    if kind == 'nparray':
        return np.arange(n)
    if kind == 'npshift':
        return np.arange(-2, n - 2)
    if kind == 'npstr':
        return np.array([f'p{i}' for i in range(n)])
    raise AssertionError(kind)


def opts_kwargs(o, tol_bits, form='plain'):
    """Keyword arguments of a solve call.  `form='numpy'`: the same values as NumPy scalars (np.int64 counts and
    offsets, np.float64 tolerance, np.bool_ flag), which callers obtain whenever they compute them with NumPy."""
    kw = dict(min_iter=o['min_iter'], max_iter=o['max_iter'], tol=unbits(tol_bits), offset=o['offset'],
              failures=o['failures'], errors=o['errors'], catch_first_error=o['catch_first_error'])
    if form == 'numpy':
        kw.update(min_iter=np.int64(kw['min_iter']), max_iter=np.int64(kw['max_iter']), tol=np.float64(kw['tol']),
                  offset=np.int64(kw['offset']), catch_first_error=np.bool_(kw['catch_first_error']))
    if form == 'omit':
        # leave out every keyword whose value is the documented default: the call must mean the same
        kw = {k: v for k, v in kw.items() if not (k in DEFAULTS and type(v) is type(DEFAULTS[k]) and v == DEFAULTS[k])}
    return kw


# the documented defaults of solve_t() / solve() / solve_period()
DEFAULTS = dict(min_iter=0, max_iter=100, tol=1e-10, offset=0, failures='raise', errors='raise', catch_first_error=True)


def t_arg(case):
    return np.int64(case['t']) if case.get('argform') == 'numpy' else case['t']


MIXES = ['none', 'none', 'none', 'alias', 'pandas', 'tracer', 'all']


def mix_classes(mix):
    """Extension mixins put under the scripted class: each must leave the solver's behaviour untouched."""
    if mix in (None, 'none'):
        return ()
    from fsic.extensions import AliasMixin, PandasIndexFeaturesMixin, TracerMixin
    return {'alias': (AliasMixin,), 'pandas': (PandasIndexFeaturesMixin,), 'tracer': (TracerMixin,),
            'all': (AliasMixin, PandasIndexFeaturesMixin, TracerMixin)}[mix]


def exc_name(e):
    if isinstance(e, NonConvergenceError):
        return 'NonConvergenceError'
    if isinstance(e, SolutionError):
        return 'SolutionError:' + ('chained' if e.__cause__ is not None else 'plain')
    for cls in (ValueError, IndexError, KeyError):
        if type(e) is cls:
            return cls.__name__
    return 'Other(' + type(e).__name__ + ')'


def world_str(m, nE):
    st = ''.join(str(x) for x in m.status)
    it = ','.join(str(int(x)) for x in m.iterations)
    ev = ','.join(m.calls)
    names = list(m.ENDOGENOUS)[:nE]
    vals = ';'.join(','.join(str(bits(x)) for x in m.__dict__['_' + names[i]]) for i in range(nE))
    return f'{st}|{it}|{ev}|{vals}'


def run_impl_solve_t(case, mixins=(), extra_kwargs=None):
    """Run the real solve_t on the case; returns (canonical string, model instance, result tag)."""
    m = build_instance(case, mixins)
    kw = opts_kwargs(case['opts'], case['tol'], case.get('argform', 'plain'))
    if extra_kwargs:
        kw.update(extra_kwargs)
    with warnings.catch_warnings():
        warnings.simplefilter('ignore')
        try:
            r = m.solve_t(t_arg(case), **kw)
            tag = 'ret:T' if r is True or (r is not False and bool(r)) else 'ret:F'
        except Exception as e:  # noqa: BLE001
            tag = exc_name(e)
    return tag + '|' + world_str(m, case['nE']), m, tag


def run_impl_solve_period(case, mixins=(), extra_kwargs=None):
    """Run the real solve_period on the period that `case['t']` denotes (`case['span_kind']` picks the span type;
    the label handed over is the span's own element at that position)."""
    span = span_of(case.get('span_kind', 'list'), case['n'])
    m = build_instance(case, mixins, span=span)
    kw = opts_kwargs(case['opts'], case['tol'], case.get('argform', 'plain'))
    if extra_kwargs:
        kw.update(extra_kwargs)
    pos = case['t'] + case['n'] if case['t'] < 0 else case['t']
    with warnings.catch_warnings():
        warnings.simplefilter('ignore')
        try:
            r = m.solve_period(span[pos], **kw)
            tag = 'ret:T' if r is True or (r is not False and bool(r)) else 'ret:F'
        except Exception as e:  # noqa: BLE001
            tag = exc_name(e)
    return tag + '|' + world_str(m, case['nE']), m, tag


def run_impl_solve(case, mixins=(), extra_kwargs=None, span=None, start=None, end=None):
    m = build_instance(case, mixins, span=span)
    m.__dict__['lags'] = case['lags']
    m.__dict__['leads'] = case['leads']
    kw = opts_kwargs(case['opts'], case['tol'], case.get('argform', 'plain'))
    if extra_kwargs:
        kw.update(extra_kwargs)
    with warnings.catch_warnings():
        warnings.simplefilter('ignore')
        try:
            labels, idx, flags = m.solve(start=start, end=end, **kw)
            tag = 'ok:' + ','.join(str(int(i)) for i in idx) + ':' + ''.join('T' if f else 'F' for f in flags)
            ret = (labels, idx, flags)
        except Exception as e:  # noqa: BLE001
            ret = e
            tag = 'err:' + exc_name(e)
    return tag, m, ret


def line(kind, case):
    return kind + '\t' + json.dumps(case, separators=(',', ':'))


# ---------------------------------------------------------------------------------------------------------------
# Case construction

TOL = 0.25  # exactly representable: |cur - prev| == tol is reachable exactly, so strictness of `<` is observable


def outcome_vals(kind, prev, nE):
    """Values for one pass realising an outcome relative to the previous check vector `prev` (list of floats)."""
    if kind == 'close':
        return [p + 0.125 if np.isfinite(p) else 1.0 for p in prev]
    if kind == 'same':
        return [p if np.isfinite(p) else 1.0 for p in prev]
    if kind == 'edge':   # exactly tol away: NOT converged (strict <)
        return [p + 0.25 if np.isfinite(p) else 1.0 for p in prev]
    if kind == 'far':
        return [p + 1.0 if np.isfinite(p) else 1.0 for p in prev]
    if kind == 'one':    # all but the last variable close; the last one far (all-vs-any)
        v = [p + 0.125 if np.isfinite(p) else 1.0 for p in prev]
        v[-1] = (prev[-1] if np.isfinite(prev[-1]) else 0.0) - 2.0
        return v
    if kind == 'allinf':   # every check value +inf at once (then e.g. 'zero': the replaced values are exactly 0.0)
        return [float('inf') for p in prev]
    if kind == 'allninf':
        return [float('-inf') for p in prev]
    if kind == 'tiny2':  # a move of 2**-30 (9.3e-10): above the default tolerance 1e-10, below 1e-8
        return [p + 2.0 ** -30 if np.isfinite(p) else 2.0 ** -7 for p in prev]
    if kind == 'tiny':   # a move far below float32's machine epsilon relative to 1, yet above a tolerance of 1e-10
        return [p + 2.0 ** -26 if np.isfinite(p) else 2.0 ** -7 for p in prev]
    if kind == 'zero':   # every value exactly 0.0 (what 'replace' turns a non-finite previous value into)
        return [0.0 for p in prev]
    if kind == 'istep':  # integer-valued models: the smallest possible move (1), far above any tol < 1
        return [p + 1.0 if np.isfinite(p) else 1.0 for p in prev]
    if kind == 'huge':   # finite values whose SUM overflows: finiteness is a per-element notion
        return [1.0e308 for p in prev]
    if kind == 'nan':
        v = [p + 1.0 if np.isfinite(p) else 1.0 for p in prev]
        v[0] = float('nan')
        return v
    if kind == 'pinf':
        v = [p + 1.0 if np.isfinite(p) else 1.0 for p in prev]
        v[-1] = float('inf')
        return v
    if kind == 'ninf':
        v = [p + 1.0 if np.isfinite(p) else 1.0 for p in prev]
        v[0] = float('-inf')
        return v
    raise AssertionError(kind)


def make_script(outcomes, start, nE):
    """Turn a list of outcome names into scripted acts, tracking the values the model will hold."""
    acts = []
    cur = list(start)
    for oc in outcomes:
        if oc == 'raise':
            v = outcome_vals('far', cur, nE)
            acts.append({'k': 'raise', 'v': [bits(x) for x in v], 'm': 1})
            cur = [v[0]] + cur[1:]
        elif oc == 'warn':
            v = outcome_vals('far', cur, nE)
            acts.append({'k': 'warn', 'v': [bits(x) for x in v], 'm': 1})
            cur = v
        elif oc == 'keep':
            acts.append({'k': 'keep'})
        else:
            v = outcome_vals(oc, cur, nE)
            acts.append({'k': 'set', 'v': [bits(x) for x in v]})
            cur = v
    return acts
