#!/venv/bin/python
"""Resolve the three predictable merge conflicts: known_findings.json (union), lean/Main.lean (union of imports and
handler lists), MANIFEST.json (regenerated)."""
import json, os, re, subprocess, sys
V = '/verif'
def show(stage, path):
    return subprocess.run(['git', '-C', V, 'show', f':{stage}:{path}'], capture_output=True, text=True).stdout
# known findings
ours, theirs = json.loads(show(2, 'known_findings.json')), json.loads(show(3, 'known_findings.json'))
by, order = {}, []
for f in ours['findings'] + theirs['findings']:
    k = (f['property'], f['key'])
    if k not in by:
        by[k] = f; order.append(k)
    elif f['status'].startswith('fixed') and not by[k]['status'].startswith('fixed'):
        by[k] = f      # a repaired entry wins over the stale open one
ours['findings'] = [by[k] for k in order]
json.dump(ours, open(f'{V}/known_findings.json', 'w'), indent=1)
# Main.lean
o, t = show(2, 'lean/Main.lean'), show(3, 'lean/Main.lean')
imps = []
for src in (o, t):
    for l in src.splitlines():
        if l.startswith('import ') and l not in imps:
            imps.append(l)
def handlers(src):
    m = re.search(r'def allHandlers[^\n]*:=\n((?:(?:  .*)?\n)+?)(?=def )', src)
    body = ' '.join(x.strip() for x in m.group(1).splitlines())
    return [h.strip() for h in body.split('++') if h.strip() and h.strip() != 'Drv.Solver.handlers']
hs = []
for src in (o, t):
    for h in handlers(src):
        if h not in hs:
            hs.append(h)
body = re.sub(r'^(import .*\n)+', '\n'.join(imps) + '\n', o, count=1, flags=re.M)
body = re.sub(r'(def allHandlers[^\n]*:=\n)((?:(?:  .*)?\n)+?)(?=def )', lambda m: m.group(1) + '  ' + ' ++\n  '.join(hs) + '\n\n', body)
open(f'{V}/lean/Main.lean', 'w').write(body)
subprocess.run([f'{V}/harness/gen_manifest.py'])
subprocess.run(['git', '-C', V, 'add', 'known_findings.json', 'lean/Main.lean', 'MANIFEST.json'])
print('\n'.join(imps)); print(hs)
