"""Cases, canonicalisation and execution shared by the container-side properties (C09, C10).

A *case* is a JSON-able dict:
    {'flavour': 'container'|'model'|'built'|'linker'|'linker0', 'strict': bool, 'span': <span spec>, 'ops': [item, ...]}
An *item* is a JSON-able dict describing one public operation or read; operands and labels are tagged values
(floats as IEEE bit patterns).  Both sides consume the same case: the real code through `run_case` (which also
produces the request line for the Lean driver kind `hist`), the model through that line.

Inputs of the model that are *recorded from outside fsic* (never from the code under test):
  * label classes  — Python `dict` semantics over the labels (1, 1.0, True are one key);
  * pandas `get_loc` results for pandas spans (`Store.getLoc`);
  * `difflib.get_close_matches` result for a would-be new attribute name (`alts`).
"""
import datetime, difflib, json, struct, warnings

import numpy as np
import pandas as pd

import fsic
from fsic.core.containers import VectorContainer


def bits(x):
    return struct.unpack('<Q', struct.pack('<d', float(x)))[0]


def unbits(b):
    return struct.unpack('<d', struct.pack('<Q', int(b)))[0]


# ---- tagged values ------------------------------------------------------------------------------------------------

OBJECTS = {}      # id -> (token, object): elements of object-dtype series (a tracer's Trace objects, None) are opaque


def token_of(x):
    if id(x) not in OBJECTS:
        OBJECTS[id(x)] = (f'<obj{len(OBJECTS)}>', x)       # keeps the object alive, so ids are not reused
    return OBJECTS[id(x)][0]


def enc_val(x, opaque=False):
    if opaque:
        return ['s', token_of(x)]
    if isinstance(x, (bool, np.bool_)):
        return ['b', bool(x)]
    if isinstance(x, (int, np.integer)):
        return ['i', int(x)]
    if isinstance(x, (float, np.floating)):
        return ['f', bits(x)]
    if isinstance(x, str):
        return ['s', str(x)]
    raise TypeError(f'value outside the operand alphabet: {x!r}')


def dec_val(j):
    t, v = j
    return {'b': bool, 'i': int, 'f': unbits, 's': str}[t](v)


KIND_OF_NP = {'f': 'f', 'i': 'i', 'b': 'b', 'U': 'U', 'O': 'O'}
NP_DTYPE = {'f': 'float64', 'i': 'int64', 'b': 'bool'}
PYTYPE = {'f': float, 'i': int, 'b': bool, 'U': str}


def enc_operand(v):
    """Python value -> operand JSON (with a `py` hint so that tuples / ranges survive a replay)."""
    if isinstance(v, np.ndarray):
        k = v.dtype.kind
        if k not in KIND_OF_NP:
            raise TypeError(f'ndarray dtype outside the alphabet: {v.dtype}')
        return {'t': 'nd', 'k': k, 'w': v.dtype.itemsize // 4 if k == 'U' else 0, 'shape': list(v.shape),
                'data': [enc_val(x, opaque=(k == 'O')) for x in v.flatten().tolist()]}
    if isinstance(v, range):
        return {'t': 'list', 'xs': [enc_val(x) for x in v], 'py': 'range', 'range': [v.start, v.stop, v.step]}
    if isinstance(v, (list, tuple)):
        py = 'tuple' if isinstance(v, tuple) else 'list'
        if any(isinstance(x, (list, tuple, range)) for x in v):
            return {'t': 'nested', 'rows': [[enc_val(y) for y in x] for x in v], 'py': py}
        return {'t': 'list', 'xs': [enc_val(x) for x in v], 'py': py}
    return {'t': 'scalar', 'v': enc_val(v)}


def dec_operand(j):
    t = j['t']
    if t == 'scalar':
        return dec_val(j['v'])
    if t == 'list':
        if j.get('py') == 'range':
            return range(*j['range'])
        xs = [dec_val(x) for x in j['xs']]
        return tuple(xs) if j.get('py') == 'tuple' else xs
    if t == 'nested':
        rows = [[dec_val(y) for y in r] for r in j['rows']]
        return tuple(tuple(r) for r in rows) if j.get('py') == 'tuple' else rows
    if t == 'nd':
        dt = NP_DTYPE.get(j['k']) or f"<U{j['w']}"
        return np.array([dec_val(x) for x in j['data']], dtype=dt).reshape(j['shape'])
    raise ValueError(t)


REF_HOW = {
    'attr': lambda obj, name: getattr(obj, name),          # obj.X
    'key': lambda obj, name: obj[name],                    # obj['X']
    'view': lambda obj, name: obj[name][::1],              # a view of the whole array
    'rev': lambda obj, name: obj[name][::-1],              # a reversed view
}


def live_operand(j, obj, ext):
    """Operands that are *live objects*: `{'t': 'ref', 'name', 'how'}` = one of the object's own arrays (or a view of
    it), `{'t': 'ext', 'id', ...nd fields}` = an array owned by the caller, the same object every time the id is used.
    Returns (python value, value-semantics operand for the model = what the array holds right now)."""
    if j['t'] == 'obj':
        if ('obj', j['id']) not in ext:
            from fsic.extensions.model import Trace
            ext[('obj', j['id'])] = Trace(names=['Y'])
        py = ext[('obj', j['id'])]
        return py, {'t': 'scalar', 'v': ['s', token_of(py)]}
    if j['t'] == 'ref':
        py = REF_HOW[j['how']](obj, j['name'])
    else:
        if j['id'] not in ext:
            ext[j['id']] = dec_operand({**j, 't': 'nd'})
        py = ext[j['id']]
    return py, enc_operand(np.array(py, copy=True))


def model_operand(j):
    return {k: v for k, v in j.items() if k not in ('py', 'range')}


def operand_count(j):
    """Number of elements of an operand; None for a ragged nested list."""
    t = j['t']
    if t == 'scalar':
        return 1
    if t == 'list':
        return len(j['xs'])
    if t == 'nested':
        if len({len(r) for r in j['rows']}) > 1:
            return None
        return sum(len(r) for r in j['rows'])
    return int(np.prod(j['shape'])) if j['shape'] else 1


# ---- labels and spans ---------------------------------------------------------------------------------------------

def enc_label(x):
    if x is None:
        return ['none']
    if isinstance(x, pd.Period):
        return ['period', str(x), x.freqstr]
    if isinstance(x, pd.Timestamp):
        return ['ts', x.isoformat()]
    if isinstance(x, datetime.datetime):
        return ['datetime', x.isoformat()]
    if isinstance(x, datetime.date):
        return ['date', x.isoformat()]
    if isinstance(x, tuple):
        return ['tuple', [enc_label(y) for y in x]]
    if isinstance(x, frozenset):
        return ['frozenset', [enc_label(y) for y in sorted(x, key=repr)]]
    if isinstance(x, bytes):
        return ['bytes', x.hex()]
    return enc_val(x)


def dec_label(j):
    t = j[0]
    if t == 'none':
        return None
    if t == 'period':
        return pd.Period(j[1], freq=j[2])
    if t == 'ts':
        return pd.Timestamp(j[1])
    if t == 'datetime':
        return datetime.datetime.fromisoformat(j[1])
    if t == 'date':
        return datetime.date.fromisoformat(j[1])
    if t == 'tuple':
        return tuple(dec_label(y) for y in j[1])
    if t == 'frozenset':
        return frozenset(dec_label(y) for y in j[1])
    if t == 'bytes':
        return bytes.fromhex(j[1])
    return dec_val(j)


def make_span(spec):
    t = spec['type']
    if t == 'range':
        return range(*spec['args'])
    if t == 'list':
        return [dec_label(x) for x in spec['labels']]
    if t == 'tuple':
        return tuple(dec_label(x) for x in spec['labels'])
    if t == 'numpy':
        return np.array([dec_label(x) for x in spec['labels']])
    if t == 'pindex':
        return pd.Index([dec_label(x) for x in spec['labels']])
    if t == 'period':
        return pd.period_range(start=spec['start'], periods=spec['n'], freq=spec['freq'])
    if t == 'datetime':
        return pd.date_range(start=spec['start'], periods=spec['n'], freq=spec['freq'])
    raise ValueError(t)


def span_kind(span):
    if isinstance(span, pd.Index):
        return 'pandas'
    if isinstance(span, np.ndarray):
        return 'numpy'
    return 'seq'


class LabelIds:
    """Label -> class number with Python dict semantics (hash + ==)."""

    def __init__(self):
        self.ids = {}

    def __call__(self, label):
        return self.ids.setdefault(label, len(self.ids))


def record_loc(span, label):
    """What the installed pandas returns for `span.get_loc(label)` (an input of the model, not modelled)."""
    try:
        r = span.get_loc(label)
    except Exception:  # noqa: BLE001  (the container turns every exception into KeyError)
        return ['missing']
    if isinstance(r, int) and not isinstance(r, bool):
        return ['pos', int(r)]
    if isinstance(r, np.integer):
        return ['npos', int(r)]
    if isinstance(r, slice) and r.step in (None, 1) and r.start is not None and r.stop is not None:
        return ['slice', int(r.start), int(r.stop)]
    return None   # boolean mask etc.: outside the model


# ---- objects ------------------------------------------------------------------------------------------------------

class _M(fsic.BaseModel):
    ENDOGENOUS = ['Y']
    EXOGENOUS = ['C']
    NAMES = ENDOGENOUS + EXOGENOUS
    CHECK = ENDOGENOUS


class _L(fsic.BaseLinker):
    ENDOGENOUS = ['H']
    NAMES = ENDOGENOUS
    CHECK = ENDOGENOUS


_TRACER = []


def tracer_class():
    if not _TRACER:
        from fsic.extensions.model import TracerMixin
        _TRACER.append(type('_TM', (TracerMixin, _M), {}))
    return _TRACER[0]


_BUILT = []


def built_class():
    if not _BUILT:
        _BUILT.append(fsic.build_model(fsic.parse_model('Y = C + G')))
    return _BUILT[0]


_ALIAS_CLASSES = {}


def alias_class(flavour, aliases):
    """Alias-enabled class (AliasMixin in front of the container / model / linker base) declaring `ALIASES`."""
    from fsic.extensions.common import AliasMixin
    key = (flavour, tuple(map(tuple, aliases)))
    if key not in _ALIAS_CLASSES:
        ns = {'ALIASES': dict((k, v) for k, v in aliases)}
        if flavour == 'acontainer':
            base = VectorContainer
        else:
            base = fsic.BaseModel if flavour == 'amodel' else fsic.BaseLinker
            ns.update(ENDOGENOUS=['Y'], NAMES=['Y', 'C', 'I'], CHECK=['Y'])
            if flavour == 'amodel':
                ns.update(EXOGENOUS=['C', 'I'])
        _ALIAS_CLASSES[key] = type('Aliased_' + flavour, (AliasMixin, base), ns)
    return _ALIAS_CLASSES[key]


def resolve_alias(aliases, name, _depth=0):
    """The variable an alias stands for: follow the declared ALIASES (a chain X -> Y -> Z ends at Z).  Written
    from the mixin's documentation, independent of its code."""
    d = dict((k, v) for k, v in aliases)
    seen = set()
    while name in d and name not in seen and d[name] != name:
        seen.add(name)
        name = d[name]
    return name


def build_object(case):
    span = make_span(case['span'])
    fl = case['flavour']
    strict = bool(case.get('strict'))
    if fl in ('acontainer', 'amodel'):
        return alias_class(fl, case['aliases'])(span, strict=strict), 0, 0
    if fl == 'alinker':
        subs = {'m1': _M(span)}
        obj = alias_class(fl, case['aliases'])(subs)
        if strict:
            obj.strict = True
        return obj, sum(m.size for m in subs.values()), sum(m.nbytes for m in subs.values())
    if fl == 'container':
        return VectorContainer(span, strict=strict), 0, 0
    if fl == 'model':
        return _M(span, strict=strict), 0, 0
    if fl == 'tracer':
        return tracer_class()(span, strict=strict), 0, 0
    if fl == 'built':
        return built_class()(span, strict=strict), 0, 0
    if fl == 'linker':
        subs = {'m1': _M(span)}
        if span_kind(span) == 'seq':   # BaseLinker compares submodel spans with `!=`: arrays cannot be compared so
            subs['m2'] = built_class()(span)
        obj = _L(subs)
        if strict:
            obj.strict = True
        return obj, sum(m.size for m in subs.values()), sum(m.nbytes for m in subs.values())
    if fl == 'linker0':
        obj = _L()
        if strict:
            obj.strict = True
        return obj, 0, 0
    raise ValueError(fl)


def own_names(obj):
    """Declaration-ordered variable names the property's `values` talks about."""
    return list(obj.names) if isinstance(obj, fsic.core.interfaces.ModelInterface) else list(obj.index)


# ---- canonical dumps ----------------------------------------------------------------------------------------------

def val_str(x, kind):
    if kind == 'f':
        return 'f%d' % bits(x)
    if kind == 'i':
        return 'i%d' % int(x)
    if kind == 'b':
        return 'bT' if x else 'bF'
    if kind == 'U':
        return 's' + str(x).encode('utf-8').hex()
    if kind == 'O':
        return 's' + token_of(x).encode('utf-8').hex()
    return '?' + kind


def dtype_str(a):
    k = a.dtype.kind
    return '%s%d' % (k, a.dtype.itemsize // 4 if k == 'U' else 0)


def shape_str(shape):
    return ','.join(str(int(x)) for x in shape)


def arr_vals(a):
    k = a.dtype.kind
    return ','.join(val_str(x, k) for x in a.flatten().tolist())


def _safe(f):
    """An observation that raises is reported as `!<exception class>` (and so disagrees with the model) instead of
    stopping the run."""
    try:
        return f()
    except Exception as e:  # noqa: BLE001
        return '!' + type(e).__name__


def _values_str(obj):
    try:
        v = obj.values
        return shape_str(v.shape) + '/' + dtype_str(v)
    except Exception as e:  # noqa: BLE001
        return '!' + type(e).__name__


def _series_str(obj, name):
    a = np.asarray(obj[name])
    return f'{name}:{dtype_str(a)}:{shape_str(a.shape)}:{arr_vals(a)}'


def dump_state(obj):
    index = _safe(lambda: list(obj.index))
    names = index if isinstance(index, list) else []
    series = [_safe(lambda n=n: _series_str(obj, n)) for n in names]
    return ('index=' + (','.join(index) if isinstance(index, list) else index) +
            '|names=' + _safe(lambda: ','.join(own_names(obj))) +
            '|attrs=' + _safe(lambda: ','.join(obj._attributes)) +
            '|strict=' + _safe(lambda: 'T' if obj.strict else 'F') +
            '|size=' + _safe(lambda: str(obj.size)) + '|nbytes=' + _safe(lambda: str(obj.nbytes)) +
            '|vshape=' + _values_str(obj) + '|' + ';'.join(series))


def read_str(r):
    if not isinstance(r, (np.ndarray, np.generic)):
        if id(r) in OBJECTS:          # an element of an object-dtype series
            return 'e:' + val_str(r, 'O')
        return 'other'
    a = np.asarray(r)
    if a.ndim == 0:
        return 'e:' + val_str(a.tolist(), a.dtype.kind)
    return f'a:{shape_str(a.shape)}:{arr_vals(a)}'


def snapshot(obj):
    out = {}
    for name in obj.index:
        try:
            out[name] = np.array(obj[name], copy=True)
        except Exception:  # noqa: BLE001  (a name in the index without a series: reported by the oracles)
            out[name] = np.array(['<unreadable>'], dtype=object)
    return out


# names under which the container keeps its own state in `__dict__` (with and without the underscore)
INTERNAL_NAMES = ['attributes', 'strict', 'span', 'index', '_attributes', '_strict', 'names', 'LAGS']
# add_variable(name) stores the array under `'_' + name`: these two names collide with the container's own entries
CLOBBERING_VARIABLE_NAMES = ('attributes', 'strict')


def clobbers(item, out, keys_before, index_before):
    """The operation succeeded although the `__dict__` key it writes belonged to something else."""
    if out != 'ok' or 'name' not in item:
        return False
    name = item['name']
    if item['op'] == 'addVariable':
        return name not in index_before and '_' + name in keys_before
    if item['op'] in ('setAttr', 'addAttribute'):
        return name.startswith('_') and name[1:] in index_before
    return False


def internal_state(obj):
    """The container's own bookkeeping, as plain values (for before / after comparison by the oracles)."""
    def grab(k):
        v = obj.__dict__.get(k, '<absent>')
        try:
            return [repr(x) for x in v] if isinstance(v, (list, tuple, range, np.ndarray, pd.Index)) else repr(v)
        except Exception:  # noqa: BLE001
            return '<unreadable>'
    return {'index': grab('index'), '_attributes': grab('_attributes'), '_strict': grab('_strict'),
            'span': grab('span'), 'keys': sorted(obj.__dict__)}


def same_array(a, b):
    return a.shape == b.shape and a.dtype == b.dtype and a.tobytes() == b.tobytes()


def closest(name, names):
    """`difflib`'s closest variable name(s), case-insensitively — the reading of "closest variable" used by the
    oracle and fed to the model as `alts`."""
    cands = {}
    for x in names:
        cands.setdefault(x.lower(), []).append(x)
    m = difflib.get_close_matches(name.lower(), list(cands.keys()), n=1, cutoff=0.1)
    return list(cands[m[0]]) if m else []


# ---- execution ----------------------------------------------------------------------------------------------------

READS = ('getItem', 'getAttr', 'getPos', 'getLabel', 'getLabelSlice', 'contains')


def _slice_labels(item):
    return (None if item.get('a') is None else dec_label(item['a']),
            None if item.get('b') is None else dec_label(item['b']))


def apply_item(obj, item):
    """Run one item on the real object.  Returns (outcome-or-read string, exception or None)."""
    op = item['op']
    name = item.get('name')
    v = item['_py'] if '_py' in item else dec_operand(item['v']) if 'v' in item else None
    try:
        with warnings.catch_warnings():
            warnings.simplefilter('ignore')
            if op == 'addVariable':
                if item.get('dtype') is None:
                    obj.add_variable(name, v)
                else:
                    obj.add_variable(name, v, dtype=PYTYPE[item['dtype']])
            elif op == 'addAttribute':
                obj.add_attribute(name, 0)
            elif op == 'setAttr':
                setattr(obj, name, v)
            elif op == 'setItem':
                obj[name] = v
            elif op == 'setPos':
                obj[name][item['i']] = v
            elif op == 'setPosSlice':
                obj[name][slice(item.get('a'), item.get('b'), item.get('step'))] = v
            elif op == 'setLabel':
                obj[name, dec_label(item['label'])] = v
            elif op == 'setLabelSlice':
                la, lb = _slice_labels(item)
                obj[name, slice(la, lb, item.get('step'))] = v
            elif op == 'replaceValues':
                obj.replace_values(**{k: dec_operand(x) for k, x in item['kvs']})
            elif op == 'setValues':
                obj.values = v
            elif op == 'setStrict':
                obj.strict = item['b']
            elif op == 'badKey':
                if item['tuple']:
                    obj[('A', 0, 1)] = 0
                else:
                    obj[5] = 0
            elif op == 'getItem':
                return read_str(obj[name]), None
            elif op == 'getAttr':
                return read_str(getattr(obj, name)), None
            elif op == 'contains':
                return 'c:T' if name in obj else 'c:F', None
            elif op == 'getPos':
                return read_str(obj[name][item['i']]), None
            elif op == 'getLabel':
                return read_str(obj[name, dec_label(item['label'])]), None
            elif op == 'getLabelSlice':
                la, lb = _slice_labels(item)
                return read_str(obj[name, slice(la, lb, item.get('step'))]), None
            else:
                raise AssertionError(op)
        return 'ok', None
    except AssertionError:
        raise
    except Exception as e:  # noqa: BLE001
        return ('!' if op in READS else '') + type(e).__name__, e


def model_item(item, ids, alts=None):
    op = item['op']
    out = {'op': op}
    for k in ('name', 'i', 'step', 'dtype', 'b', 'tuple'):
        if k in item:
            out[k] = item[k]
    if 'v' in item:
        out['v'] = model_operand(item.get('_mat', item['v']))
    if op in ('setAttr', 'setValues', 'setStrict'):
        out['alts'] = list(alts or [])
    if op in ('setPosSlice',):
        out['a'], out['b'] = item.get('a'), item.get('b')
    if op in ('setLabel', 'getLabel'):
        out['label'] = ids(dec_label(item['label']))
    if op in ('setLabelSlice', 'getLabelSlice'):
        out['a'] = None if item.get('a') is None else ids(dec_label(item['a']))
        out['b'] = None if item.get('b') is None else ids(dec_label(item['b']))
    if op == 'replaceValues':
        out['kvs'] = [[k, model_operand(x)] for k, x in item['kvs']]
    return out


def series_json(a):
    a = np.asarray(a)
    k = a.dtype.kind
    return {'k': k, 'w': a.dtype.itemsize // 4 if k == 'U' else 0, 'shape': list(a.shape),
            'data': [enc_val(x, opaque=(k == 'O')) for x in a.flatten().tolist()]}


def labels_of_items(items):
    for it in items:
        if 'label' in it:
            yield dec_label(it['label'])
        if it['op'] in ('setLabelSlice', 'getLabelSlice'):
            for k in ('a', 'b'):
                if it.get(k) is not None:
                    yield dec_label(it[k])


def initial_store(obj, case, extra_size, extra_bytes, ids, ref_span=None):
    """The model's start state = the freshly constructed real object as observed through its public surface.  The span
    (its labels, its kind, pandas' answers) is the span the object was GIVEN (`ref_span`: at construction, or the
    argument of `reindex`), not whatever the object has made of it."""
    span = obj.span if ref_span is None else ref_span
    kind = span_kind(span)
    span_ids = [ids(x) for x in span]
    get_loc = []
    if kind == 'pandas':
        seen = set()
        for lab in list(span) + list(labels_of_items(case['ops'])):
            i = ids(lab)
            if i in seen:
                continue
            seen.add(i)
            loc = record_loc(span, lab)
            if loc is None:
                return None
            get_loc.append([i, loc])
    is_model = isinstance(obj, fsic.core.interfaces.ModelInterface)
    return {
        'span': span_ids, 'kind': kind, 'getLoc': get_loc,
        'vars': [[n, series_json(obj[n])] for n in obj.index],
        'nonNames': [n for n in obj.index if n not in list(obj.names)] if is_model else [],
        'attrs': list(obj._attributes), 'strict': bool(obj.strict),
        'defaultKind': np.dtype(obj.dtype).kind if is_model else None,
        'extraSize': int(extra_size), 'extraBytes': int(extra_bytes),
        # `__dict__` keys that are neither a variable's storage nor listed in `_attributes`
        'extraKeys': sorted(set(obj.__dict__) - {'_' + n for n in obj.index} - set(obj._attributes)),
    }


BOUNDARY = ('copy', 'reindex')


def run_segments(case, observer=None):
    """Run the case on the real code.  The operations `copy` / `reindex` replace the object under test by the result
    (`obj.copy()`, `obj.reindex(<span spec>)`) and start a new *segment*: the model is restarted from the state of the
    new object as observed (reindex itself belongs to C12), so that everything after the boundary is predicted from
    the new object's own span and data alone.  Returns (segments, obj) with segments = [{'line': request line or
    None if outside the model, 'impl': per-item impl strings, 'first': index of the segment's first item}].
    `observer(obj, item, before, outcome, exc, decl)` is called after every item (also after a boundary item, with
    the NEW object) with a snapshot taken before it."""
    OBJECTS.clear()
    obj, extra_size, extra_bytes = build_object(case)
    ids = LabelIds()
    decl = own_names(obj)           # declaration order as the harness has seen it happen
    segments = []
    ext = {}                        # arrays owned by the caller (shared between operations by id)
    ref = {'span': obj.span if case['flavour'] in ('linker', 'alinker', 'linker0') else make_span(case['span'])}

    def open_segment(first):
        segments.append({'store': initial_store(obj, case, extra_size, extra_bytes, ids, ref['span']), 'items': [],
                         'impl': [], 'first': first})

    open_segment(0)
    if observer:
        if hasattr(observer, 'extra_size'):
            observer.extra_size = extra_size      # Σ submodel.size, computed outside the object under test
        if hasattr(observer, 'ref_span'):
            observer.ref_span = ref['span']
        observer(obj, None, None, None, None, decl)
    for k, item in enumerate(case['ops']):
        if item['op'] in BOUNDARY:
            with warnings.catch_warnings():
                warnings.simplefilter('ignore')
                if item['op'] == 'copy':
                    obj = obj.copy()
                else:
                    ref['span'] = make_span(item['span'])
                    obj = obj.reindex(make_span(item['span']))
            if observer and hasattr(observer, 'ref_span'):
                observer.ref_span = ref['span']
            open_segment(k + 1)
            if observer:
                observer(obj, item, None, 'ok', None, decl)
            continue
        alts = (closest(resolve_alias(case.get('aliases', []), item['name']), decl) if item['op'] == 'setAttr' else
                closest('values', decl) if item['op'] == 'setValues' else
                closest('strict', decl) if item['op'] == 'setStrict' else None)
        before = snapshot(obj) if observer else None
        if 'v' in item and item['v']['t'] in ('ref', 'ext', 'obj'):
            try:
                py, mat = live_operand(item['v'], obj, ext)
                item = {**item, '_py': py, '_mat': mat}
            except Exception:  # noqa: BLE001  (the source variable does not exist: an ordinary scalar instead)
                item = {**item, '_py': 0.0, '_mat': enc_operand(0.0)}
        out, exc = apply_item(obj, item)
        seg = segments[-1]
        if item['op'] in READS:
            seg['impl'].append(out)
        else:
            if item['op'] == 'addVariable' and out == 'ok':
                decl.append(item['name'])
            seg['impl'].append(out + '|' + dump_state(obj))
        seg['items'].append(model_item(item, ids, alts))
        if observer:
            observer(obj, item, before, out, exc, decl)
    for seg in segments:
        seg['line'] = (None if seg['store'] is None else
                       'hist\t' + json.dumps({'store': seg['store'], 'ops': seg['items'],
                                               'aliases': [list(p) for p in case.get('aliases', [])]}))
    return segments, obj


def run_case(case, observer=None):
    """Single-segment form (no `copy` / `reindex` items): (request line or None, per-item impl strings, object)."""
    segments, obj = run_segments(case, observer)
    assert len(segments) == 1
    return segments[0]['line'], segments[0]['impl'], obj


def compare(rep, what, case, line, impl_out, reply, first=0):
    model_out = reply.split('\t') if impl_out else []
    if len(model_out) != len(impl_out):
        rep.disagree(what + ' (reply length)', case, reply[:500], impl_out[:5])
        return False
    for k, (a, b) in enumerate(zip(model_out, impl_out)):
        if a != b:
            rep.disagree(what, {'case': case, 'first_differing_item': first + k, 'item': case['ops'][first + k]}, a, b)
            return False
    return True
