"""Helpers shared by C12 (reindex) and C16 (eval / time-series helpers): span catalogue over the span types of C10,
label canonicalisation (labels cross to the Lean model as classes under Python `==`), float bit patterns, state
snapshots of containers."""
import json, struct, warnings

import numpy as np
import pandas as pd


def bits(x):
    return struct.unpack('<Q', struct.pack('<d', float(x)))[0]


def unbits(b):
    return struct.unpack('<d', struct.pack('<Q', int(b)))[0]


def fcanon(x):
    """Float as the driver prints it: every NaN is 'nan', anything else its bit pattern."""
    x = float(x)
    return 'nan' if x != x else str(bits(x))


def line(kind, payload):
    return kind + '\t' + json.dumps(payload, separators=(',', ':'))


def exc_class(e):
    return type(e).__name__


class Labels:
    """Canonical classes of labels under Python `==`/hash: str -> {"s"}, anything equal to an int -> {"i"},
    other hashables -> {"o": id} (ids per equality class)."""

    def __init__(self):
        self.other = {}

    def lab(self, x):
        if isinstance(x, str):
            return {'s': str(x)}
        if isinstance(x, (bool, np.bool_)):
            return {'i': int(x)}
        if isinstance(x, (int, np.integer)):
            return {'i': int(x)}
        if isinstance(x, (float, np.floating)) and x == x and x not in (float('inf'), float('-inf')) and float(x).is_integer():
            return {'i': int(x)}
        try:
            k = x
            hash(k)
        except TypeError:
            k = repr(x)
        if k not in self.other:
            self.other[k] = len(self.other)
        return {'o': self.other[k]}

    def ident(self, x):
        """Hashable identity of the class (for the position-map model of reindex: a small integer per class)."""
        return json.dumps(self.lab(x), sort_keys=True)


# ---- span catalogue ------------------------------------------------------------------------------------------------

STR_LABELS = ['a', 'b', 'c', 'd', 'e', 'f', 'g']
MIXED = ['a', 1, (2, 3), 2.5, None, 'b', 7]


def span_kinds():
    return ['range', 'range0', 'list_str', 'list_numstr', 'tuple_int', 'mixed', 'np_int', 'np_str', 'pd_int', 'pd_str',
            'period_A', 'period_Q', 'datetime']


def make_span(kind, n, start=0):
    """A span of length n of the given type; `start` shifts the labels (for overlapping old/new pairs)."""
    if kind == 'range':
        return range(2000 + start, 2000 + start + n)
    if kind == 'range0':
        return range(start - 1, start - 1 + n)
    if kind == 'list_str':
        return STR_LABELS[start:start + n]
    if kind == 'list_numstr':
        return [str(2000 + start + i) for i in range(n)]
    if kind == 'tuple_int':
        return tuple(2000 + start + i for i in range(n))
    if kind == 'mixed':
        return MIXED[start:start + n]
    if kind == 'np_int':
        return np.arange(2000 + start, 2000 + start + n)
    if kind == 'np_str':
        return np.array(STR_LABELS[start:start + n], dtype='<U1')
    if kind == 'pd_int':
        return pd.Index(list(range(2000 + start, 2000 + start + n)))
    if kind == 'pd_str':
        return pd.Index(STR_LABELS[start:start + n], dtype=object)
    if kind == 'period_A':
        return pd.period_range(start=str(2000 + start), periods=n, freq='Y')
    if kind == 'period_Q':
        return pd.period_range(start='2000Q1', periods=n + start, freq='Q')[start:]
    if kind == 'datetime':
        return pd.date_range('2000-01-30', periods=n + start, freq='D')[start:]
    raise ValueError(kind)


def span_family(kind):
    if kind.startswith('np_'):
        return 'numpy'
    if kind.startswith(('pd_', 'period', 'datetime')):
        return 'pandas'
    return 'list'


def label_texts(kind, span):
    """How the labels of `span` are spelled inside backticks in an eval expression (None = cannot be spelled)."""
    out = []
    for x in list(span):
        if isinstance(x, str):
            out.append(str(x))
        elif isinstance(x, (bool, np.bool_)):
            out.append(None)
        elif isinstance(x, (int, np.integer)):
            out.append(str(int(x)))
        elif isinstance(x, pd.Period):
            out.append(str(x))
        elif isinstance(x, pd.Timestamp):
            out.append(x.strftime('%Y-%m-%d'))
        else:
            out.append(None)
    return out


def classify_loc(r):
    """Result of a pandas `get_loc` as the model's `Loc`."""
    if isinstance(r, (bool, np.bool_)):
        return 'opaque'
    if isinstance(r, int):
        return {'pos': int(r), 'py': True}
    if isinstance(r, np.integer):
        return {'pos': int(r), 'py': False}
    if isinstance(r, slice):
        if r.step not in (None, 1) or r.start is None or r.stop is None:
            return 'opaque'
        py = isinstance(r.stop, int)
        return {'slice': [int(r.start), int(r.stop)], 'py': py}
    return 'opaque'


def pandas_table(span, texts, labels):
    """`in` and `get_loc` of a pandas index for every period text the generator may put between backticks, and for
    the integer each text spells (the model asks for both)."""
    rows, seen = [], set()
    cands = []
    for t in texts:
        cands.append(t)
        try:
            cands.append(int(t))
        except ValueError:
            pass
    for c in cands:
        key = (type(c).__name__, c)
        if key in seen:
            continue
        seen.add(key)
        with warnings.catch_warnings():
            warnings.simplefilter('ignore')
            try:
                inside = bool(c in span)
            except Exception:  # noqa: BLE001
                inside = None
            try:
                loc = classify_loc(span.get_loc(c))
            except Exception:  # noqa: BLE001
                loc = 'keyError'
        if inside is None:
            continue
        rows.append([labels.lab(c), inside, loc])
    return rows


def span_payload(kind, span, labels, texts=()):
    fam = span_family(kind)
    if fam == 'pandas':
        return {'kind': 'table', 'table': pandas_table(span, texts, labels)}
    return {'kind': fam, 'labels': [labels.lab(x) for x in list(span)]}


# ---- container state ---------------------------------------------------------------------------------------------

def array_canon(a):
    a = np.asarray(a)
    if a.dtype.kind == 'f':
        return [fcanon(x) for x in a.tolist()]
    if a.dtype.kind == 'b':
        return [bool(x) for x in a.tolist()]
    if a.dtype.kind in 'iu':
        return [int(x) for x in a.tolist()]
    return [str(x) for x in a.tolist()]


def snapshot(obj):
    """Everything observable about a container/model that reindex/eval must not change."""
    d = obj.__dict__
    snap = {'class': type(obj).__name__, 'span': repr(list(d['span'])), 'span_type': type(d['span']).__name__,
            'index': list(d['index']), 'attributes': list(d['_attributes']), 'strict': d['_strict'], 'vars': {}}
    for name in d['index']:
        a = d.get('_' + name)
        snap['vars'][name] = None if a is None else (str(a.dtype), a.shape, array_canon(a))
    extra = {}
    for k, v in d.items():
        if k in ('span', 'index', '_attributes', '_strict') or (k.startswith('_') and k[1:] in d['index']):
            continue
        extra[k] = repr(v)
    snap['extra'] = extra
    return snap


def violate(rep, key, what, case, cap=12):
    """`rep.violate` with a per-key cap: the framework keeps at most 500 violations in total, so a known finding
    that fails on hundreds of generated inputs must not crowd out a new violation found later in the run."""
    n = rep.dist.get('violations-seen:' + key, 0)
    rep.dist['violations-seen:' + key] = n + 1
    if n < cap:
        rep.violate(key, what, case)


def transfer_new_violations(pid, src, dst):
    """Copy the violations of `src` into `dst`, except those whose key is an open entry of known_findings.json."""
    import framework
    known = {k['key'] for k in framework.load_known() if k['property'] == pid and k.get('status') == 'open'}
    for v in src.violations:
        if v['key'] in known:
            print('  (known finding reproduced on this input: ' + v['key'] + ')')
        else:
            dst.violate(v['key'], v['what'], v['case'])
