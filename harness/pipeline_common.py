"""End-to-end tie of the composed parser model (lean/FsicModel/Pipeline.lean = M2 Lexer ∘ M3 Parser) to the real
`fsic.parse_model(text, check_syntax=False)` on whole scripts: symbol lists (name, type, lags, leads, equation, code) or
the exception class must agree exactly."""
import json, random

import fsic
from fsic import parser as P
from fsic.exceptions import ParserError, SymbolError

import gen_scripts as gs
import text_streams as ts


def idx_json(v):
    if v is None:
        return None
    if isinstance(v, bool):
        return int(v)
    if isinstance(v, int):
        return v
    return {'s': str(v)}


def impl(text):
    try:
        syms = fsic.parse_model(text, check_syntax=False)
    except IndentationError:
        return {'err': 'IndentationError'}
    except ParserError:
        return {'err': 'ParserError'}
    except SymbolError:
        return {'err': 'SymbolError'}
    except Exception as e:  # noqa: BLE001
        return {'err': 'Internal', 'cls': type(e).__name__}
    return {'ok': [{'name': s.name, 'type': P.Type(s.type).name, 'lags': idx_json(s.lags), 'leads': idx_json(s.leads),
                    'equation': s.equation, 'code': s.code} for s in syms]}


def line(text):
    return 'parse_model_text\t' + json.dumps({'text': [ord(c) for c in text]})


def compare(ctx, rep, texts, label, strict=True):
    """texts: list of (tag, text). Model vs real parse_model on each."""
    if ctx.oracle_only or not texts:
        return
    outs = ctx.drive([line(t) for _, t in texts])
    for (tag, text), out in zip(texts, outs):
        got = impl(text)
        try:
            model = json.loads(out)
        except Exception:  # noqa: BLE001
            model = {'err': 'driver: ' + out[:80]}
        rep.evaluations += 1
        rep.dist[f'pipeline:{label}:' + ('ok' if 'ok' in got else got['err'])] += 1
        same = (('ok' in got and model.get('ok') == got['ok']) or
                ('err' in got and model.get('err') == got['err']))
        if not same:
            if not strict and ('ok' in got) == ('ok' in model) and 'Internal' not in (got.get('err'), model.get('err')):
                rep.dist['pipeline:model_drift'] += 1       # own-error class differs on the malformed stream
                continue
            rep.disagree(f'parse_model vs Pipeline.parseModelText [{label}]', {'text': text, 'tag': tag},
                         json.dumps(model)[:600], json.dumps(got)[:600])


def run(ctx, rep, n_programs, n_random_layouts=2, n_mutants=0):
    rng = ctx.sub_rng('pipeline')
    texts = []
    for i in range(n_programs):
        prog = ts.program(rng, i)
        for name, lay in ts.layouts_for(rng, n_random_layouts):
            texts.append((f'{i}:{name}', gs.render(prog, lay)))
    compare(ctx, rep, texts, 'grammar', strict=True)
    if n_mutants:
        muts = []
        for i in range(n_mutants):
            prog = ts.program(rng, i)
            base = gs.render(prog, gs.random_layout(random.Random(rng.random())))
            muts.append((f'mutant{i}', ts.mutate(rng, base)))
        compare(ctx, rep, muts, 'mutants', strict=False)


def replay(ctx, rep, case):
    """A text-only case (found by the whole-script tie): show both sides; a remaining difference is a disagreement."""
    print('  script :', case['text'].replace('\n', ' ⏎ '))
    got = impl(case['text'])
    print('  impl   :', json.dumps(got)[:400])
    try:
        model = json.loads(ctx.drive([line(case['text'])])[0])
    except Exception as e:  # noqa: BLE001
        print('  model: <driver unavailable>', e)
        return
    print('  model  :', json.dumps(model)[:400])
    same = (('ok' in got and model.get('ok') == got['ok']) or ('err' in got and model.get('err') == got['err']))
    if not same:
        rep.disagree('parse_model vs Pipeline.parseModelText [replay]', case, json.dumps(model)[:600], json.dumps(got)[:600])
