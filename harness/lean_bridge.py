"""Bridge to the Lean side: (re)build targets under a lock, audit axioms, grep forbidden tokens, pipe cases
through the native correspondence driver."""
import fcntl, os, re, subprocess, tempfile, time

VERIF = os.path.dirname(os.path.dirname(os.path.abspath(__file__)))
LEAN = os.path.join(VERIF, 'lean')
LOCK = os.path.join(LEAN, '.verif.lock')
DRIVER = os.path.join(LEAN, '.lake', 'build', 'bin', 'fsicdrv')
ALLOWED_AXIOMS = {'propext', 'Classical.choice', 'Quot.sound'}
FORBIDDEN = re.compile(r'\bsorry\b|\badmit\b|^\s*axiom\s|native_decide|bv_decide|implemented_by|\bunsafe\s|maxHeartbeats\s+0\b|\bpartial\s+def\b', re.M)


class Locked:
    def __enter__(self):
        self.f = open(LOCK, 'w')
        fcntl.flock(self.f, fcntl.LOCK_EX)
        return self

    def __exit__(self, *a):
        fcntl.flock(self.f, fcntl.LOCK_UN)
        self.f.close()


def _env():
    e = dict(os.environ)
    e.pop('LEAN_PATH', None)
    return e


def build(targets, timeout=1500):
    """`lake build <targets>`; returns (ok, log)."""
    with Locked():
        t0 = time.time()
        p = subprocess.run(['lake', 'build'] + list(targets), cwd=LEAN, env=_env(), stdout=subprocess.PIPE,
                           stderr=subprocess.STDOUT, text=True, timeout=timeout)
        return p.returncode == 0, p.stdout, time.time() - t0


def strip_comments(src):
    src = re.sub(r'/-.*?-/', '', src, flags=re.S)
    src = re.sub(r'--.*', '', src)
    return src


def forbidden_tokens(dirs=('FsicModel', 'Proofs')):
    """Forbidden constructs outside comments in model and proof sources. (`partial def` is allowed only in the
    driver's IO loop, which is not part of the model or the proofs.)"""
    hits = []
    for d in dirs:
        for root, _, files in os.walk(os.path.join(LEAN, d)):
            for f in files:
                if f.endswith('.lean'):
                    path = os.path.join(root, f)
                    body = strip_comments(open(path, encoding='utf-8').read())
                    for m in FORBIDDEN.finditer(body):
                        hits.append((os.path.relpath(path, LEAN), m.group(0).strip()))
    return hits


def audit(module, theorems, timeout=600):
    """`#print axioms` for every theorem.  Returns {theorem: [axioms] | None (missing / failed)} and the raw log."""
    src = f'import {module}\n' + ''.join(f'#print axioms {t}\n' for t in theorems)
    with tempfile.NamedTemporaryFile('w', suffix='.lean', dir=os.path.join(LEAN, '.lake'), delete=False) as f:
        f.write(src)
        path = f.name
    try:
        p = subprocess.run(['lake', 'env', 'lean', path], cwd=LEAN, env=_env(), stdout=subprocess.PIPE,
                           stderr=subprocess.STDOUT, text=True, timeout=timeout)
    finally:
        os.unlink(path)
    out = p.stdout
    res = {t: None for t in theorems}
    flat = re.sub(r'\s+', ' ', out)
    for t in theorems:
        m = re.search(r"'" + re.escape(t) + r"' depends on axioms: \[([^\]]*)\]", flat)
        if m:
            res[t] = [a.strip() for a in m.group(1).split(',') if a.strip()]
        elif re.search(r"'" + re.escape(t) + r"' does not depend on any axioms", flat):
            res[t] = []
    return res, out


def leanchecker(modules, timeout=3000):
    p = subprocess.run(['lake', 'env', 'leanchecker'] + list(modules), cwd=LEAN, env=_env(), stdout=subprocess.PIPE,
                       stderr=subprocess.STDOUT, text=True, timeout=timeout)
    return p.returncode == 0, p.stdout


def drive(lines, timeout=3000):
    """Pipe request lines through the native driver; returns the reply lines (same length)."""
    if not lines:
        return []
    data = ''.join(l + '\n' for l in lines)
    p = subprocess.run([DRIVER], input=data, stdout=subprocess.PIPE, stderr=subprocess.PIPE, text=True,
                       timeout=timeout, cwd=LEAN)
    if p.returncode != 0:
        raise RuntimeError(f'driver exited {p.returncode}: {p.stderr[:2000]}')
    out = p.stdout.split('\n')
    if out and out[-1] == '':
        out.pop()
    if len(out) != len(lines):
        raise RuntimeError(f'driver returned {len(out)} lines for {len(lines)} requests')
    return out
