#!/venv/bin/python
"""One more pass of the harmless-refactor false-alarm test: every refactor of the last recorded pass against the same
checks (harness/refactor_test.sh), appended to refactors/RESULTS.json.  usage: run_refactors.py "<note>" """
import json, re, subprocess, sys
V = '/verif'
path = f'{V}/refactors/RESULTS.json'
data = json.load(open(path))
last = data['runs'][-1]['results']
head = subprocess.run(['git', '-C', '/repo', 'rev-parse', '--short', 'HEAD'], capture_output=True, text=True).stdout.strip()
run = {'note': sys.argv[1] if len(sys.argv) > 1 else 'final tree', 'repo_head': head, 'results': {}}
for name, props in last.items():
    out = subprocess.run([f'{V}/harness/refactor_test.sh', f'{V}/refactors/{name}'] + sorted(props),
                         capture_output=True, text=True).stdout
    res = {}
    for p in props:
        m = re.search(r'%s quick .*-> exit (\d+)' % p, out)
        res[p] = int(m.group(1)) if m else None
    run['results'][name] = res
    bad = {p: c for p, c in res.items() if c != 0}
    print(name, 'ok' if not bad else f'ALARM {bad}', flush=True)
    if bad:
        print(out[-1500:], flush=True)
data['runs'].append(run)
json.dump(data, open(path, 'w'), indent=1)
print(sum(len(r) for r in run['results'].values()), 'check runs;',
      sum(1 for r in run['results'].values() for c in r.values() if c != 0), 'not exit 0')
