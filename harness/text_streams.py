"""Input streams shared by C13 and C14: exhaustive strings over the driving alphabet, grammar programs (with
verbatim blocks, named periods, keywords) under layouts, mutation fuzzing of valid scripts, and the worker pool
that runs (T) model-vs-implementation comparisons and (S) oracles over them."""
import collections, itertools, keyword, multiprocessing, os, random, re, sys

import framework
import gen_scripts as gs
import lexer_common as lc

# ---- exhaustive strings -------------------------------------------------------------------------------------

REDUCED = [  # (alphabet, length) chosen for regex interactions; each enumerated exhaustively from length L0+1
    ('Y=() \n`#', 6),          # statement assembly: parentheses, fences, comments, equation_re
    ('as[] e1(.', 6),          # keyword prefixes as/assert.., INVALID, function look-ahead, index
    ('Y={}[0]=', 6),           # braces reaching str.format, index, second '='
    ('in\n [1]é`', 6),         # \b with a non-ASCII letter, newline inside brackets, verbatim
    ('X<> e[-1]\t', 6),        # error terms, tab, index text
    ("Y='\"`[]1 ", 6),         # quoted / backticked index
]


def exhaustive_tasks(alphabet, lo, hi, plen=2):
    """Tasks (alphabet, prefix, lo, hi): all strings of length lo..hi over `alphabet` that start with `prefix`;
    strings shorter than the prefix length form one extra task."""
    tasks = []
    if lo < plen:
        tasks.append((alphabet, None, lo, min(hi, plen - 1)))
    if hi >= plen:
        for p in itertools.product(alphabet, repeat=plen):
            tasks.append((alphabet, ''.join(p), max(lo, plen), hi))
    return tasks


def expand(task):
    alphabet, prefix, lo, hi = task
    if prefix is None:
        for n in range(lo, hi + 1):
            for t in itertools.product(alphabet, repeat=n):
                yield ''.join(t)
    else:
        for n in range(lo, hi + 1):
            for t in itertools.product(alphabet, repeat=n - len(prefix)):
                yield prefix + ''.join(t)


# ---- grammar programs ---------------------------------------------------------------------------------------

BLOCKS = [
    ('pass',),
    ('pass  # a comment inside the block',),
    ('# only a comment', 'pass'),
    ('_tmp = (1 +', '        2)  # continued'),
    ("_s = 'a'", '_u = [1, 2][0]'),
]

# ---- fenced verbatim blocks of every shape (C13: accepted with the syntax check => build_model and instantiation work) --

BLOCK_BODIES = [
    ('pass',), ('self.Z_ = 1',), ('_t = self.X[t] + 1', 'self.Y[t] = max(_t, 0)'),
    ('if self.X[t] > 0:', '    self.Y[t] = 1'), ('for _i in range(2):', '    pass'),
    ('if True:', '    pass', 'else:', '    pass'), ('while False:', '    break'),
    ('try:', '    pass', 'except Exception:', '    pass'), ('if self.X[t] > 0:', '    if True:', '        pass'),
    ('class _C:', '    pass'), ('def _f(a):', '    return a'), ('_v = [', '    1,', '    2]'),
    # dangling / incomplete
    ('if True:',), ('for _i in range(2):',), ('else:',), ('def _f():',), ('_v = (1,',), ('_v = 1)',), ('x = 1 \\',),
    ("_s = '''a", "b'''"), ('    ',), (),
    # valid only at module level, or only inside a function
    ('return',), ('return 1',), ('yield 1',), ('_g = (yield)',), ('await _x',), ('nonlocal _n',), ('global _g', '_g = 1'),
    ('from __future__ import annotations',), ('from os import *',), ('import os',), ('break',), ('continue',),
    ('__class__',), ('super().solve_t_before(t)',), ('del self',), ('print("hi")',), ('CANARY()',), ('1 is 1',),
]


def _shapes(lines):
    """The same block under every indentation / whitespace shape."""
    yield 'as-is', lines
    for name, pre in (('indent4', '    '), ('indent2', '  '), ('tab', '\t'), ('indent1', ' ')):
        yield name, tuple(pre + ln for ln in lines)
    if lines:
        yield 'first-line-indented', ('    ' + lines[0],) + tuple(lines[1:])
        yield 'rest-indented', (lines[0],) + tuple('    ' + ln for ln in lines[1:])
        yield 'mixed-tab-space', tuple(('\t' if i % 2 == 0 else '        ') + ln for i, ln in enumerate(lines))
        yield 'trailing-whitespace', tuple(ln + ('  ' if i % 2 == 0 else '\t') for i, ln in enumerate(lines))
        yield 'blank-lines', ('',) + tuple(lines) + ('', '   ')
        yield 'comment-lines', ('# note',) + tuple(ln + '  # c' for ln in lines)
        yield 'dedent-last', tuple('    ' + ln for ln in lines[:-1]) + (lines[-1],)


def block_scripts():
    """(label, script): every body x shape x context (alone, after an equation, between equations, twice), plus
    variations of the fence lines themselves."""
    for bi, body in enumerate(BLOCK_BODIES):
        for shape, lines in _shapes(body):
            block = '\n'.join(('```',) + tuple(lines) + ('```',))
            label = f'body{bi}:{shape}'
            yield label + ':alone', block
            yield label + ':after', 'Y = X\n' + block
            yield label + ':between', 'Y = X\n' + block + '\nZ = Y[-1]'
        block = '\n'.join(('```',) + tuple(body) + ('```',))
        yield f'body{bi}:twice', block + '\nY = X\n' + block
        yield f'body{bi}:fence-python', '```python\n' + '\n'.join(body) + '\n```'
        yield f'body{bi}:fence-trailing-space', '```  \n' + '\n'.join(body) + '\n```  '
        yield f'body{bi}:long-fence', '`````\n' + '\n'.join(body) + '\n`````'
        yield f'body{bi}:fence-comment', '```  # open\n' + '\n'.join(body) + '\n```  # close'


# Names that LOOK special to Python but are ordinary identifiers for the parser: every soft keyword (reflected at
# run time: `match`, `case`, `type`, ...; `_` is in the regular pool) and builtin / conventional names used as series.
SOFT_NAMES = [k for k in getattr(keyword, 'softkwlist', ['match', 'case', 'type']) if k != '_'] + [
    'print', 'len', 'int', 'id', 'sum', 'list', 'dict', 'set', 'str', 'object', 'input', 'range', 'float', 'bool',
    'any', 'all', 'map', 'filter', 'zip', 'round', 'pow', 'hash', 'iter', 'next', 'open', 'vars', 'dir',
    'np', 't', 'self', 'iteration', 'errors', 'kwargs', 'fsic', 'Model', 're', 'os']

CONFIGS = [
    dict(),
    dict(var_pool=SOFT_NAMES + ['Y', 'X']),
    dict(var_pool=SOFT_NAMES, allow_calls=False, allow_params=False, lhs_offsets=True),
    dict(allow_verbatim=True),
    dict(allow_named_periods=True, span_labels=[2000, 2001, 2002, 'a', 'b']),
    dict(lhs_offsets=True, max_lag=12, max_lead=10),
    dict(max_equations=6, max_depth=4),
    dict(allow_params=False, allow_errors=False, allow_calls=False),
]


def program(rng, i):
    cfg = gs.GenConfig(**CONFIGS[i % len(CONFIGS)])
    prog = gs.gen_program(rng, cfg)
    if rng.random() < 0.25:
        k = rng.randrange(len(prog.statements) + 1)
        block = gs.VerbatimBlock(rng.choice(BLOCKS))
        prog.statements.insert(k, block)
        if rng.random() < 0.4:   # the SAME verbatim text a second time: each occurrence is a statement of its own
            prog.statements.insert(rng.randrange(len(prog.statements) + 1), block)
    return prog


def layouts_for(rng, n_random):
    out = [(name, gs.catalogue_layout(name, random.Random(rng.random()))) for name in gs.LAYOUT_CATALOGUE]
    for j in range(n_random):
        out.append((f'random{j}', gs.random_layout(random.Random(rng.random()))))
    return out


# ---- mutation fuzzing ---------------------------------------------------------------------------------------

TOKEN = re.compile(r'[A-Za-z_][A-Za-z_0-9.]*|\d+\.?\d*|\*\*|[<>=!]=|```|\s+|.', re.S)
BRACKETS = '()[]{}<>`'


def mutate(rng, text):
    toks = TOKEN.findall(text)
    if not toks:
        return text
    for _ in range(rng.choice([1, 1, 1, 2, 3])):
        k = rng.randrange(len(toks))
        op = rng.choice(['delete', 'duplicate', 'swap', 'bracket+', 'bracket-', 'char'])
        if op == 'delete':
            del toks[k]
        elif op == 'duplicate':
            toks.insert(k, toks[k])
        elif op == 'swap' and len(toks) > 1:
            j = rng.randrange(len(toks))
            toks[k], toks[j] = toks[j], toks[k]
        elif op == 'bracket+':
            toks.insert(k, rng.choice(BRACKETS))
        elif op == 'bracket-':
            idx = [i for i, t in enumerate(toks) if t in BRACKETS]
            if idx:
                del toks[rng.choice(idx)]
        else:
            toks.insert(k, rng.choice(lc.ALPHABET + ['\t', '#', '=', '0']))
        if not toks:
            break
    return ''.join(toks)


# ---- worker pool --------------------------------------------------------------------------------------------

_WORK = {}


def register(name, fn):
    _WORK[name] = fn


def _call(args):
    name, payload = args
    rep = framework.Report()
    try:
        _WORK[name](payload, rep)
    except Exception as e:  # noqa: BLE001
        import traceback
        rep.notes.append('worker crashed: ' + ''.join(traceback.format_exception(type(e), e, e.__traceback__))[-1500:])
        rep.dist['worker-crash'] += 1
    return rep


def run_pool(ctx, rep, tasks):
    """tasks: list of (registered stream name, payload).  Results are merged in task order (deterministic)."""
    if not tasks:
        return
    nproc = max(1, min(ctx.workers, len(tasks)))
    per_key = collections.Counter(v['key'] for v in rep.violations)

    def merge(r):
        kept = []
        for v in r.violations:          # keep a bounded number of examples per key (counts stay in rep.dist)
            if per_key[v['key']] < 25:
                per_key[v['key']] += 1
                kept.append(v)
        r.violations = kept
        r.disagreements = r.disagreements[:max(0, 200 - len(rep.disagreements))]
        rep.merge(r)

    if nproc == 1:
        for r in map(_call, tasks):
            merge(r)
    else:
        mp = multiprocessing.get_context('fork')
        with mp.Pool(nproc) as pool:
            for r in pool.imap(_call, tasks, chunksize=1):
                merge(r)
    crashed = [n for n in rep.notes if n.startswith('worker crashed')]
    if crashed:
        raise RuntimeError(crashed[0])
