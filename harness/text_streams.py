"""Input streams shared by C13 and C14: exhaustive strings over the driving alphabet, grammar programs (with
verbatim blocks, named periods, keywords) under layouts, mutation fuzzing of valid scripts, and the worker pool
that runs (T) model-vs-implementation comparisons and (S) oracles over them."""
import collections, itertools, keyword, multiprocessing, os, random, re, sys

import framework
import gen_scripts as gs
import lexer_common as lc

# ---- exhaustive strings -------------------------------------------------------------------------------------

REDUCED = [  # (alphabet, length) chosen for regex interactions; each enumerated exhaustively from length L0+1
    ('Y=() \n`#', 6),          # statement assembly: parentheses, fences, comments, equation_re
    ('as[] e1(.', 6),          # keyword prefixes as/assert.., INVALID, function look-ahead, index
    ('Y={}[0]=', 6),           # braces reaching str.format, index, second '='
    ('in\n [1]é`', 6),         # \b with a non-ASCII letter, newline inside brackets, verbatim
    ('X<> e[-1]\t', 6),        # error terms, tab, index text
    ("Y='\"`[]1 ", 6),         # quoted / backticked index
]


def exhaustive_tasks(alphabet, lo, hi, plen=2):
    """Tasks (alphabet, prefix, lo, hi): all strings of length lo..hi over `alphabet` that start with `prefix`;
    strings shorter than the prefix length form one extra task."""
    tasks = []
    if lo < plen:
        tasks.append((alphabet, None, lo, min(hi, plen - 1)))
    if hi >= plen:
        for p in itertools.product(alphabet, repeat=plen):
            tasks.append((alphabet, ''.join(p), max(lo, plen), hi))
    return tasks


def expand(task):
    alphabet, prefix, lo, hi = task
    if prefix is None:
        for n in range(lo, hi + 1):
            for t in itertools.product(alphabet, repeat=n):
                yield ''.join(t)
    else:
        for n in range(lo, hi + 1):
            for t in itertools.product(alphabet, repeat=n - len(prefix)):
                yield prefix + ''.join(t)


# ---- grammar programs ---------------------------------------------------------------------------------------

BLOCKS = [
    ('pass',),
    ('pass  # a comment inside the block',),
    ('# only a comment', 'pass'),
    ('_tmp = (1 +', '        2)  # continued'),
    ("_s = 'a'", '_u = [1, 2][0]'),
]

# ---- fenced verbatim blocks of every shape (C13: accepted with the syntax check => build_model and instantiation work) --

BLOCK_BODIES = [
    ('pass',), ('self.Z_ = 1',), ('_t = self.X[t] + 1', 'self.Y[t] = max(_t, 0)'),
    ('if self.X[t] > 0:', '    self.Y[t] = 1'), ('for _i in range(2):', '    pass'),
    ('if True:', '    pass', 'else:', '    pass'), ('while False:', '    break'),
    ('try:', '    pass', 'except Exception:', '    pass'), ('if self.X[t] > 0:', '    if True:', '        pass'),
    ('class _C:', '    pass'), ('def _f(a):', '    return a'), ('_v = [', '    1,', '    2]'),
    # dangling / incomplete
    ('if True:',), ('for _i in range(2):',), ('else:',), ('def _f():',), ('_v = (1,',), ('_v = 1)',), ('x = 1 \\',),
    ("_s = '''a", "b'''"), ('    ',), (),
    # valid only at module level, or only inside a function
    ('return',), ('return 1',), ('yield 1',), ('_g = (yield)',), ('await _x',), ('nonlocal _n',), ('global _g', '_g = 1'),
    ('from __future__ import annotations',), ('from os import *',), ('import os',), ('break',), ('continue',),
    ('__class__',), ('super().solve_t_before(t)',), ('del self',), ('print("hi")',), ('CANARY()',), ('1 is 1',),
]


def _shapes(lines):
    """The same block under every indentation / whitespace shape."""
    yield 'as-is', lines
    for name, pre in (('indent4', '    '), ('indent2', '  '), ('tab', '\t'), ('indent1', ' ')):
        yield name, tuple(pre + ln for ln in lines)
    if lines:
        yield 'first-line-indented', ('    ' + lines[0],) + tuple(lines[1:])
        yield 'rest-indented', (lines[0],) + tuple('    ' + ln for ln in lines[1:])
        yield 'mixed-tab-space', tuple(('\t' if i % 2 == 0 else '        ') + ln for i, ln in enumerate(lines))
        yield 'trailing-whitespace', tuple(ln + ('  ' if i % 2 == 0 else '\t') for i, ln in enumerate(lines))
        yield 'blank-lines', ('',) + tuple(lines) + ('', '   ')
        yield 'comment-lines', ('# note',) + tuple(ln + '  # c' for ln in lines)
        yield 'dedent-last', tuple('    ' + ln for ln in lines[:-1]) + (lines[-1],)


def block_scripts():
    """(label, script): every body x shape x context (alone, after an equation, between equations, twice), plus
    variations of the fence lines themselves."""
    for bi, body in enumerate(BLOCK_BODIES):
        for shape, lines in _shapes(body):
            block = '\n'.join(('```',) + tuple(lines) + ('```',))
            label = f'body{bi}:{shape}'
            yield label + ':alone', block
            yield label + ':after', 'Y = X\n' + block
            yield label + ':between', 'Y = X\n' + block + '\nZ = Y[-1]'
        block = '\n'.join(('```',) + tuple(body) + ('```',))
        yield f'body{bi}:twice', block + '\nY = X\n' + block
        yield f'body{bi}:fence-python', '```python\n' + '\n'.join(body) + '\n```'
        yield f'body{bi}:fence-trailing-space', '```  \n' + '\n'.join(body) + '\n```  '
        yield f'body{bi}:long-fence', '`````\n' + '\n'.join(body) + '\n`````'
        yield f'body{bi}:fence-comment', '```  # open\n' + '\n'.join(body) + '\n```  # close'


# ---- left-hand sides of every shape (C13: own errors only; accepted => builds) -----------------------------------------

LHS_ATOMS = ['X', '{a}', '<e>', 'f(X)', 'f()', '`v`', '1', 'X[0]', '{a}[-1]', 'in', 'np.g(X)']
LHS_JOINS = [',', '.', '', '+', '[0],', '][']
LHS_WRAPS = [('', ''), ('(', ')'), ('[', ']'), ('', '[0]'), ('', '.x'), ('*', ','), ('', ',')]
RHS_FORMS = ['1, 2', 'Z', 'Z[-1] + 1']


def lhs_shape_scripts(full):
    """Statements whose left-hand side is a tuple target / wrapped / subscripted call / attribute, with non-variable
    terms before, after or instead of the variable; no whitespace inside the LHS (and a parenthesised form with
    whitespace)."""
    k = 0
    for n in (1, 2, 3):
        for atoms in itertools.product(LHS_ATOMS, repeat=n):
            for joins in itertools.product(LHS_JOINS, repeat=n - 1):
                k += 1
                if n == 3 and not full and k % 9:
                    continue
                core = atoms[0] + ''.join(j + a for j, a in zip(joins, atoms[1:]))
                for (a, b) in (LHS_WRAPS if n < 3 else LHS_WRAPS[:2]):
                    rhs = RHS_FORMS[k % len(RHS_FORMS)]
                    yield f'{a}{core}{b} = {rhs}'
                if n == 2:
                    yield f'({core} = 1, 2)'
                    yield f'({atoms[0]} , {atoms[1]} = 1, 2)'


# ---- index texts of every shape ---------------------------------------------------------------------------------------

INDEX_TEXTS = [
    '0', '1', '-1', '+1', '007', '-007', '+0', '-0', '00', '1.0', '1.', '.5', '-1.0', '+1.0', '1e0', '1E0', '1e1', '-1e1',
    '1e309', '-1e999', '1e-1', '1e+2', '1e', 'e1', 'inf', '-inf', '+inf', 'Infinity', '-Infinity', 'nan', 'NaN', 'infinity',
    '9' * 400, '-' + '9' * 400, '1' + '0' * 399 + '.0', '9' * 4300, '9' * 4301, '0' * 4400 + '1', '1' + '_0' * 2200,
    '0x1', '0X1F', '0o7', '0b1', '1_0', '1__0', '_1', '1_', '1_000_000', '²', '', ' ', '\t', '  ', '[1]', '1][2', '(1)', '1,2',
    '1:2', ':', 't', 't-1', 't+1', 'a', "'a'", '"a"', "'a", "a'", '`1`', '`a`', '``', '`', "''", "'", '"', '1 2', '- 1', '--1',
    '+-1', '1+1', '1-1', '1j', 'True', 'None', '1L', '-', '+', '.', '1e400', '-1e400', '1' + '0' * 400 + 'e-400', '0.0', '-0.0',
    '0e0', '1_0.0', '1f', '0_0', '-+1', '1\n', '\n1', '1\n]', "'2000'", '"2000Q1"', '`2000`', "`'a'`", '{a}', '<e>',
]
INDEX_TEXTS_UNICODE = ['٠', '−1', '١', '１', '１２', '-١', '१', '٣_٣', '𝟏', '1١', '\u2212' + '1', '\u00a01\u00a0', '\u20031', '1\u2028']   # outside M2's domain
INDEX_FORMS = ['Y = X[{I}]', 'Y = {{a}}[{I}] * 2', 'Y = <e>[{I}] + 1', 'X[{I}] = 1', 'Y = X[ {I} ]', 'Y = f(X[{I}], 1)',
               'Y = X[{I}][{I}]', 'Y = X[{I}] + Z[{I}]']


def index_shape_scripts(texts=None):
    for ix in (texts or INDEX_TEXTS):
        for form in INDEX_FORMS:
            yield form.replace('{{', '\x00').replace('}}', '\x01').replace('{I}', ix).replace('\x00', '{').replace('\x01', '}')


# ---- the compile context: what a method body with these parameters allows, nesting and size limits of the compiler ------

METHOD_NAMES = ['t', 'self', 'errors', 'iteration', 'kwargs', 'catch_first_error', '_x']


def stress_scripts(full):
    # statements that are valid at module / function level but not (or differently) in `_evaluate(self, t, *, ...)`
    for kw in ('global', 'nonlocal'):
        for n in METHOD_NAMES:
            for body in ((f'{kw} {n}',), (f'{kw} {n}', f'{n} = 1'), (f'{n} = 1', f'{kw} {n}'), ('if True:', f'    {kw} {n}')):
                yield '```\n' + '\n'.join(body) + '\n```'
                yield 'Y = X\n```\n' + '\n'.join(body) + '\n```'
    for body in (('del t',), ('del self',), ('t: int = 1',), ('errors += 1',), ('def _evaluate(self): pass',),
                 ('lambda t: t',), ('[t for t in range(2)]',), ('class t: pass',), ('import t',), ('t = (yield)',),
                 ('return t',), ('self = None',), ('def f():', '    nonlocal t', '    t = 1'),
                 ('def f():', '    global t',), ('exec("global t")',), ('__debug__ = 1',), ('None = 1',), ('t := 1',)):
        yield '```\n' + '\n'.join(body) + '\n```'
    # nesting depth near the limits of the compiler (20 statically nested blocks, 100 indentation levels)
    heads = {'if': 'if True:', 'for': 'for _i in range(1):', 'while': 'while False:', 'try': 'try:', 'with': 'with self:'}
    depths = list(range(15, 25)) + list(range(93, 103)) + ([30, 50, 200] if full else [])
    for kind, head in heads.items():
        for d in depths:
            if kind != 'if' and d > 30:
                continue
            lines = []
            for i in range(d):
                lines.append('    ' * i + head)
            lines.append('    ' * d + 'pass')
            if kind == 'try':
                for i in reversed(range(d)):
                    lines.append('    ' * i + 'except Exception:')
                    lines.append('    ' * (i + 1) + 'pass')
            yield '```\n' + '\n'.join(lines) + '\n```'
            yield '```\n' + '\n'.join(' ' + ln for ln in lines) + '\n```'
    for d in depths:
        if d > 30:
            yield 'Y = ' + ' if X else ('.join(['1'] * d) + ')' * (d - 1)
    # very long operator chains and deep bracket nesting
    sizes = [20, 100, 200, 500, 1000, 3000] + ([2000, 5000] if full else [])
    for n in sizes:
        yield 'Y = ' + ' + '.join(['X'] * n)
        yield 'Y = ' + ' * '.join(['X[-1]'] * n)
        yield 'Y = ' + ' ** '.join(['X'] * n)
        yield 'Y = ' + '-' * n + 'X'
        yield 'Y = ' + 'not ' * n + 'X'
        yield 'Y = ' + '(' * n + 'X' + ')' * n
        yield 'Y = (' + '(' * n + 'X' + ')' * n + '\n)'
        yield 'Y = ' + 'f(' * n + 'X' + ')' * n
        yield 'Y = ' + '[' * n + 'X' + ']' * n
        yield 'Y = X' + '[0]' * n
        yield 'Y = X' + '.a' * min(n, 1000)    # (the dotted-name alternative rescans the tail at every position)
        yield 'Y = ' + ' and '.join(['X'] * n)
        yield 'Y = ' + ' if X else '.join(['1'] * n)
        yield 'Y = ' + ', '.join(['X'] * n)
        yield 'Y = max(' + ', '.join(['X'] * n) + ')'
        yield 'Y = X < ' + ' < '.join(['X'] * n)
        yield 'Y = `' + ' + '.join(['1'] * n) + '`'
        yield '```\n' + 'x = ' + ' + '.join(['1'] * n) + '\n```'
        yield '\n'.join(f'V{i} = V{i + 1}[-1]' for i in range(min(n, 1000)))


# Names that LOOK special to Python but are ordinary identifiers for the parser: every soft keyword (reflected at
# run time: `match`, `case`, `type`, ...; `_` is in the regular pool) and builtin / conventional names used as series.
SOFT_NAMES = [k for k in getattr(keyword, 'softkwlist', ['match', 'case', 'type']) if k != '_'] + [
    'print', 'len', 'int', 'id', 'sum', 'list', 'dict', 'set', 'str', 'object', 'input', 'range', 'float', 'bool',
    'any', 'all', 'map', 'filter', 'zip', 'round', 'pow', 'hash', 'iter', 'next', 'open', 'vars', 'dir',
    'np', 't', 'self', 'iteration', 'errors', 'kwargs', 'fsic', 'Model', 're', 'os']

CONFIGS = [
    dict(),
    dict(var_pool=SOFT_NAMES + ['Y', 'X']),
    dict(var_pool=SOFT_NAMES, allow_calls=False, allow_params=False, lhs_offsets=True),
    dict(allow_verbatim=True),
    dict(allow_named_periods=True, span_labels=[2000, 2001, 2002, 'a', 'b']),
    dict(lhs_offsets=True, max_lag=12, max_lead=10),
    dict(max_equations=6, max_depth=4),
    dict(allow_params=False, allow_errors=False, allow_calls=False),
]


def program(rng, i):
    cfg = gs.GenConfig(**CONFIGS[i % len(CONFIGS)])
    prog = gs.gen_program(rng, cfg)
    if rng.random() < 0.25:
        k = rng.randrange(len(prog.statements) + 1)
        block = gs.VerbatimBlock(rng.choice(BLOCKS))
        prog.statements.insert(k, block)
        if rng.random() < 0.4:   # the SAME verbatim text a second time: each occurrence is a statement of its own
            prog.statements.insert(rng.randrange(len(prog.statements) + 1), block)
    return prog


def layouts_for(rng, n_random):
    out = [(name, gs.catalogue_layout(name, random.Random(rng.random()))) for name in gs.LAYOUT_CATALOGUE]
    for j in range(n_random):
        out.append((f'random{j}', gs.random_layout(random.Random(rng.random()))))
    return out


# ---- mutation fuzzing ---------------------------------------------------------------------------------------

TOKEN = re.compile(r'[A-Za-z_][A-Za-z_0-9.]*|\d+\.?\d*|\*\*|[<>=!]=|```|\s+|.', re.S)
BRACKETS = '()[]{}<>`'


def mutate(rng, text):
    toks = TOKEN.findall(text)
    if not toks:
        return text
    for _ in range(rng.choice([1, 1, 1, 2, 3])):
        k = rng.randrange(len(toks))
        op = rng.choice(['delete', 'duplicate', 'swap', 'bracket+', 'bracket-', 'char'])
        if op == 'delete':
            del toks[k]
        elif op == 'duplicate':
            toks.insert(k, toks[k])
        elif op == 'swap' and len(toks) > 1:
            j = rng.randrange(len(toks))
            toks[k], toks[j] = toks[j], toks[k]
        elif op == 'bracket+':
            toks.insert(k, rng.choice(BRACKETS))
        elif op == 'bracket-':
            idx = [i for i, t in enumerate(toks) if t in BRACKETS]
            if idx:
                del toks[rng.choice(idx)]
        else:
            toks.insert(k, rng.choice(lc.ALPHABET + ['\t', '#', '=', '0']))
        if not toks:
            break
    return ''.join(toks)


# ---- worker pool --------------------------------------------------------------------------------------------

_WORK = {}


def register(name, fn):
    _WORK[name] = fn


def _call(args):
    name, payload = args
    rep = framework.Report()
    try:
        _WORK[name](payload, rep)
    except Exception as e:  # noqa: BLE001
        import traceback
        rep.notes.append('worker crashed: ' + ''.join(traceback.format_exception(type(e), e, e.__traceback__))[-1500:])
        rep.dist['worker-crash'] += 1
    return rep


TASK_DEADLINE = {'quick': 600.0, 'thorough': 3600.0}   # seconds per task (a task normally takes seconds)


def _call_guarded(args):
    """One task under a watchdog PROCESS.  A regular expression that backtracks without end runs inside the C engine
    holding the GIL, so no in-process alarm or thread can interrupt it; the watchdog child kills this worker after the
    deadline, having first written down which task it was.  The parent then sees a broken pool."""
    import json, signal, time
    task, deadline, marker = args
    me = os.getpid()
    wd = os.fork()
    if wd == 0:
        try:
            t_end = time.time() + deadline
            while time.time() < t_end:
                time.sleep(1.0)
                if os.getppid() != me:      # the worker is gone (finished and killed us late, or was terminated)
                    os._exit(0)
            with open(marker, 'w') as f:
                json.dump({'stream': task[0], 'payload': repr(task[1])[:4000], 'deadline': deadline,
                           'texts': _texts_of(task[1])}, f)
            os.kill(me, signal.SIGKILL)
        finally:
            os._exit(0)
    try:
        return _call(task)
    finally:
        try:
            os.kill(wd, signal.SIGKILL)
            os.waitpid(wd, 0)
        except OSError:
            pass


def _texts_of(payload):
    """The scripts a task carries literally (streams that generate their scripts from a seed carry none)."""
    for part in (payload if isinstance(payload, (tuple, list)) else ()):
        if isinstance(part, (list, tuple)) and part and all(isinstance(x, str) for x in part):
            return list(part)[:4000]
    return []


def _report_overrun(rep, marker, deadline):
    """A worker was killed by its watchdog: name the task; when it carries its scripts, find the ones the parser does
    not get through within the timing oracle's budget (child process, killed on overrun) and report those."""
    import json
    try:
        info = json.load(open(marker))
    except Exception:  # noqa: BLE001
        info = {'stream': '?', 'payload': '?', 'texts': []}
    found = 0
    if info.get('texts'):
        import parse_timing as pt
        items = [(f'watchdog/{i}', 0, t) for i, t in enumerate(info['texts'])]
        try:
            _, timeouts, _ = pt.run(items, max_restarts=3)
        except Exception:  # noqa: BLE001
            timeouts = []
        for shape, n, script, budget in timeouts:
            found += 1
            rep.violate('parse-does-not-terminate-in-budget',
                        f'parse_model did not return within {budget:.1f}s for a script of stream {info["stream"]!r} '
                        f'(its worker had to be killed after {deadline:.0f}s)',
                        {'stream': 'timing', 'shape': shape, 'n': n, 'text': script})
    if not found:
        rep.violate('non-termination',
                    f'a task of stream {info["stream"]!r} was still running after {deadline:.0f}s (normally seconds); its '
                    f'worker was killed', {'stream': 'watchdog', 'task': info['stream'], 'payload': info['payload']})
    rep.notes.append(f'task watchdog fired for stream {info["stream"]}; the remaining tasks were not run')


def run_pool(ctx, rep, tasks):
    """tasks: list of (registered stream name, payload).  Results are merged in task order (deterministic)."""
    if not tasks:
        return
    import concurrent.futures as cf
    import tempfile
    nproc = max(1, min(ctx.workers, len(tasks)))
    per_key = collections.Counter(v['key'] for v in rep.violations)

    def merge(r):
        kept = []
        for v in r.violations:          # keep a bounded number of examples per key (counts stay in rep.dist)
            if per_key[v['key']] < 25:
                per_key[v['key']] += 1
                kept.append(v)
        r.violations = kept
        r.disagreements = r.disagreements[:max(0, 200 - len(rep.disagreements))]
        rep.merge(r)

    deadline = float(os.environ.get('FSIC_VERIF_TASK_DEADLINE') or TASK_DEADLINE.get(ctx.tier, 600.0) * max(1, ctx.scale))
    tmp = tempfile.mkdtemp(prefix='fsic-verif-watchdog-')
    marker = os.path.join(tmp, 'overrun.json')
    try:
        with cf.ProcessPoolExecutor(nproc, mp_context=multiprocessing.get_context('fork')) as pool:
            try:
                for r in pool.map(_call_guarded, [(t, deadline, marker) for t in tasks], chunksize=1):
                    merge(r)
            except cf.process.BrokenProcessPool:
                if not os.path.exists(marker):
                    raise                       # a worker died for another reason: infrastructure
                _report_overrun(rep, marker, deadline)
    finally:
        import shutil
        shutil.rmtree(tmp, ignore_errors=True)
    crashed = [n for n in rep.notes if n.startswith('worker crashed')]
    if crashed:
        raise RuntimeError(crashed[0])
