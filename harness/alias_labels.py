"""C18, part (L): SPAN LABELS THAT ARE SPELT LIKE NAMES.

The clause: "label-indexed access through an alias has exactly the effect of the same operation on the underlying
variable".  In `model[name, label]` / `model[name, a:b:c]` only the FIRST component is a name; the label (the slice
bounds) is a period of the span, whatever it is spelt like.  Here the span is labelled with strings some of which
coincide with alias names, with canonical variable names, with alias targets that are no variables, with alias names
of a linker's submodel, with names that point to themselves - and some with nothing (plain labels); the span comes as
list, tuple, NumPy array of str, pandas Index; the labels in the keys come as plain str or in the other str forms of
part (K).  Paths: `m[name, l]`, `m[name, a:]`, `m[name, :b]`, `m[name, a:b]`, each with and without a step, read and
write, through canonical names and through aliases in the first position, on the object and on an alias-enabled
submodel of a linker; `eval` with backticked labels; the constructor and `from_dataframe` on such a span (index labels
equal to alias names must stay labels), `to_dataframe(use_aliases=True)` (the index is not renamed), `reindex`.

Oracles, from the property text only:
(a) the alias-free twin - the same class WITHOUT the mixin, the canonical name, the SAME label: same result (value
    by bytes + dtype, or exception family) and same full state after every operation;
(b) absolutely: `m[name, l]` is element `labels.index(l)` of the series stored under the variable `name` resolves
    to, `m[name, a:b:c]` the elements `range(index(a), index(b) + 1, c)`; a write changes exactly those cells of
    exactly that series; a label that is not in the span is KeyError and changes nothing, even if it is an alias of
    a label that is.
Integer histories also go through the Lean model (`alias_label_history`: `aliased (labelOps span)`,
FsicModel/AliasLabel.lean, where the labels ARE names).

Every case is JSON-native: a label in a key is `{"form": "np.str_", "text": "GDP"}` (alias_routes.mk_name), a span is
`{"type": "ndarray", "labels": [...]}`.
"""
import json
import warnings

import numpy as np

import fsic
from fsic.extensions import AliasMixin

import alias_routes as ar
import alias_failops as fo

base = ar.base

SPAN_TYPES = ['list', 'list', 'tuple', 'ndarray', 'index', 'list-np.str_']
PLAIN_LABELS = ['p0', 'p1', 'p2', 'p3', 'p4', 'x_1', '2001', 'Q1']
SUB_ALIAS_POOL = ['out', 'o2', 'gov', 'spend']
CONTAINER_VARS = ['Y', 'C', 'G', 'H']

KEY_RESOLVED = 'label-resolved-as-alias'
KEY_DIVERGES = 'label-access-diverges'
KEY_CELL = 'label-access-wrong-cell'


def mk_span(sp):
    kind, labels = sp['type'], list(sp['labels'])
    if kind == 'list':
        return labels
    if kind == 'tuple':
        return tuple(labels)
    if kind == 'ndarray':
        return np.array(labels)
    if kind == 'list-np.str_':
        return list(np.array(labels))          # a list whose elements are numpy.str_
    import pandas as pd
    return pd.Index(labels)


def spec(text, form='str'):
    return {'form': form, 'text': text}


# ---------------------------------------------------------------------------------------------------------------
# generation

def label_kind(text, m, variables, sub_m=None):
    """What a label coincides with, from the point of view of the object whose alias map is `m`."""
    b = base()
    sm = b.strip_self(m)
    if text in sm:
        return 'alias-named'
    if text in variables:
        return 'variable-named'
    if text in sm.values():
        return 'target-named'
    if sub_m and (text in b.strip_self(sub_m) or text in sub_m.values()):
        return 'other-object-alias-named'
    if text in m:
        return 'self-map-named'
    return 'plain'


def gen_labels(rng, m, variables, extra=()):
    b = base()
    sm = b.strip_self(m)
    labels = []
    aliases = list(sm) + list(extra)
    for k in rng.sample(aliases, min(len(aliases), rng.choice([1, 1, 2, 3]))):
        labels.append(k)
        r = rng.random()
        if r < 0.65:
            labels.append(b.chain_end(sm, k) if k in sm else k)          # the variable (or undefined name) it names
        elif r < 0.8 and k in sm:
            labels.append(sm[k])                                          # the declared target (may be an alias)
    labels += rng.sample(list(variables), min(len(variables), rng.choice([0, 1, 1, 2])))
    nonvar = [v for v in sm.values() if v not in variables and v not in sm]
    if nonvar and rng.random() < 0.5:
        labels.append(rng.choice(nonvar))
    selfs = [k for k in m if m[k] == k]
    if selfs and rng.random() < 0.5:
        labels.append(rng.choice(selfs))
    labels += rng.sample(PLAIN_LABELS, rng.choice([1, 1, 2, 3]))
    labels = list(dict.fromkeys(labels))
    rng.shuffle(labels)
    labels = labels[:8]
    while len(labels) < 3:
        labels.append(next(x for x in PLAIN_LABELS if x not in labels))
    return labels


def gen_label_case(rng):
    b = base()
    kind = rng.choice(['model', 'model', 'model', 'container', 'linker'])
    case = {'part': 'label-span', 'kind': kind}
    sub_m = {}
    if kind == 'model':
        which = rng.choice(['plain', 'plain', 0, 1, 2])
        variables = list(ar.model_base(which).NAMES)
        case['base'] = which
    elif kind == 'container':
        variables = rng.sample(CONTAINER_VARS, rng.choice([2, 3, 4]))
    else:
        names = rng.sample(['H', 'X', 'W', 'Z'], rng.choice([2, 3]))
        case['endo'], case['exo'] = names[:1], names[1:]
        variables = names
        sub_items = []
        pool = rng.sample(SUB_ALIAS_POOL, rng.choice([1, 2, 3]))
        for i, k in enumerate(pool):
            t = rng.choice(['Y', 'G'] + ([pool[i - 1]] if i and rng.random() < 0.4 else []))
            sub_items.append([k, t])
        case['sub_m'] = sub_items
        sub_m = dict(map(tuple, sub_items))
    case['variables'] = variables
    items, _ = ar.route_alias_map(rng, variables, self_p=0.25, undef_p=0.3)
    m = dict(map(tuple, items))
    case['m'] = items
    case['pref'] = ar.pick_pref(rng, m, variables) if kind != 'container' or rng.random() < 0.5 else []
    labels = gen_labels(rng, m, variables, extra=list(sub_m) + (['Y', 'G'] if sub_m else []))
    n = len(labels)
    stypes = ['list', 'list', 'tuple', 'list-np.str_'] if kind == 'linker' else SPAN_TYPES
    case['span'] = {'type': rng.choice(stypes), 'labels': labels}
    case['strict'] = kind != 'linker' and rng.random() < 0.15
    case['init'] = {v: [100 * (i + 1) + j for j in range(n)] for i, v in enumerate(variables)}
    if kind == 'linker':
        case['sub_init'] = {'Y': [900 + j for j in range(n)], 'G': [950 + j for j in range(n)]}
    by = ar.spellings(m, variables)
    sm = b.strip_self(m)
    und = [k for k in sm if b.chain_end(sm, k) not in variables]
    sub_by = ar.spellings(sub_m, ['Y', 'G']) if sub_m else {}
    counter = [1000]

    def fresh():
        counter[0] += 1
        return counter[0]

    def name(on):
        r = rng.random()
        if on == 'sub':
            return rng.choice(sub_by[rng.choice(['Y', 'G'])]) if r < 0.9 else 'nosuch'
        if r < 0.7:
            return rng.choice(by[rng.choice(variables)])
        if r < 0.9:
            return rng.choice(variables)
        return rng.choice(und + ['nosuch'])

    def label(on):
        """A label for a key: mostly one of the span, weighted towards the name-like ones; now and then a name that
        is NOT a label (an alias of a label among them)."""
        mm, vv = (sub_m, ['Y', 'G']) if on == 'sub' else (m, variables)
        r = rng.random()
        namelike = [x for x in labels if label_kind(x, mm, vv) != 'plain']
        if r < 0.55 and namelike:
            text = rng.choice(namelike)
        elif r < 0.88:
            text = rng.choice(labels)
        else:
            smm = b.strip_self(mm)
            outside = [k for k in smm if k not in labels and b.chain_end(smm, k) in labels]
            outside += [k for k in smm if k not in labels] + [v for v in vv if v not in labels] + ['nolabel']
            text = outside[0] if rng.random() < 0.5 else rng.choice(outside)
        form = 'str' if rng.random() < 0.8 else rng.choice(ar.FORMS)
        return spec(text, form)

    def index(on, write=False):
        r = rng.random()
        if r < 0.4:
            return {'l': label(on)}
        shape = rng.choice(['start', 'stop', 'both', 'both', 'open'])
        st = rng.choice([None, None, None, 1, 2, 2, 3])
        if rng.random() < (0.02 if write else 0.08):
            st = rng.choice([-1, -2, 0])
        return {'a': label(on) if shape in ('start', 'both') else None,
                'b': label(on) if shape in ('stop', 'both') else None, 'st': st}

    def cells(ix):
        pos = expected_positions(labels, ix)
        return len(pos) if isinstance(pos, list) else 0

    ops = []
    for _ in range(rng.randrange(6, 15)):
        on = 'sub' if kind == 'linker' and rng.random() < 0.45 else 'main'
        r = rng.random()
        if r < 0.36:
            op = {'k': 'get', 'on': on, 'name': name(on), 'ix': index(on)}
        elif r < 0.72:
            ix = index(on, True)
            op = {'k': 'set', 'on': on, 'name': name(on), 'ix': ix}
            c = cells(ix)
            q = rng.random()
            if 'l' in ix or q < 0.6 or c == 0:
                op['v'] = fresh()
            elif q < 0.92:
                op['v'] = [fresh() for _ in range(c)]
            else:
                op['v'] = [fresh() for _ in range(c + 1)]        # wrong length (never 1: NumPy would broadcast it)
        elif r < 0.76:
            op = {'k': 'getitem', 'on': on, 'name': name(on)}
        elif r < 0.8:
            op = {'k': 'setitem', 'on': on, 'name': name(on),
                  'v': fresh() if rng.random() < 0.5 else [fresh() for _ in range(n)]}
        elif r < 0.88:
            ix = index('main')
            for k in ('l', 'a', 'b'):
                if ix.get(k):
                    ix[k]['form'] = 'str'                        # (the label is written into the expression)
            if ix.get('st') is not None and ix['st'] <= 0:
                ix['st'] = 2
            op = {'k': 'eval', 'on': 'main', 'name': rng.choice(variables), 'ix': ix}
        elif r < 0.90:
            op = {'k': 'export', 'on': on, 'use_aliases': rng.random() < 0.8}
        elif kind != 'container' and r < 0.92:
            if rng.random() < 0.5:
                op = {'k': 'solve', 'on': on, 'start': label(on)['text'] if rng.random() < 0.8 else None,
                      'end': label(on)['text'] if rng.random() < 0.8 else None}
            else:
                op = {'k': 'solve_period', 'on': on, 'period': label(on)['text']}
        elif kind == 'model' and r < 0.96:
            ts = rng.sample(variables, min(len(variables), rng.choice([1, 2, 3])))
            op = {'k': rng.choice(['ctor', 'from_dataframe', 'from_dataframe']), 'on': 'main',
                  'names': [rng.choice(by[t]) for t in ts], 'vs': [[fresh() for _ in range(n)] for _ in ts],
                  'index': rng.choice(['list', 'index', 'ndarray'])}
        elif kind != 'linker':
            new = rng.sample(labels, rng.randrange(1, n + 1))
            new += [x for x in rng.sample(list(sm) + PLAIN_LABELS, 2) if x not in new][:rng.choice([0, 1, 2])]
            rng.shuffle(new)
            op = {'k': 'reindex', 'on': 'main', 'labels': new}
        else:
            continue
        ops.append(op)
    case['ops'] = ops
    return case


# ---------------------------------------------------------------------------------------------------------------
# what the property says an index selects

def expected_positions(labels, ix):
    """Positions of the span selected by a key's second component (labels by their text); None = KeyError.
    Closed interval on the right; a missing bound is the first / last label."""
    if 'l' in ix:
        t = ix['l']['text']
        return [labels.index(t)] if t in labels else None
    a = labels[0] if ix.get('a') is None else ix['a']['text']
    z = labels[-1] if ix.get('b') is None else ix['b']['text']
    if a not in labels or z not in labels:
        return None
    st = 1 if ix.get('st') is None else ix['st']
    if st <= 0:
        return 'unspecified'
    return list(range(len(labels)))[labels.index(a):labels.index(z) + 1:st]


def key_index(ix):
    if 'l' in ix:
        return ar.mk_name(ix['l'])
    return slice(None if ix.get('a') is None else ar.mk_name(ix['a']),
                 None if ix.get('b') is None else ar.mk_name(ix['b']), ix.get('st'))


def eval_source(name, ix):
    if 'l' in ix:
        return f"{name}[`{ix['l']['text']}`]"
    a = '' if ix.get('a') is None else f"`{ix['a']['text']}`"
    z = '' if ix.get('b') is None else f"`{ix['b']['text']}`"
    return f'{name}[{a}:{z}' + ('' if ix.get('st') is None else f":{ix['st']}") + ']'


def ix_labels(ix):
    """[(position in the key, label spec)]"""
    if 'l' in ix:
        return [('single', ix['l'])]
    return [(w, ix[k]) for k, w in (('a', 'slice-start'), ('b', 'slice-stop')) if ix.get(k) is not None]


def op_path(op, m, variables):
    """<get|set|eval>:<where the (alias-named, else any) labels of the key sit>[+step]"""
    ix = op['ix']
    labs = ix_labels(ix)
    hot = [w for w, s in labs if label_kind(s['text'], m, variables) == 'alias-named'] or [w for w, _ in labs]
    where = 'slice-open' if not hot else hot[0] if len(hot) == 1 else 'slice-both'
    return f"{op['k']}:{where}" + ('+step' if ix.get('st') is not None else '')


# ---------------------------------------------------------------------------------------------------------------
# objects

def build_objects(case):
    """(aliased, plain, [(name of the part, aliased object, plain object, its alias map, its variables)])."""
    b = base()
    kind = case['kind']
    m, pref = dict(map(tuple, case['m'])), list(case['pref'])
    strict = case['strict']
    init = {k: list(v) for k, v in case['init'].items()}
    if kind == 'model':
        Base = ar.model_base(case['base'])
    elif kind == 'container':
        Base = fsic.core.containers.VectorContainer
    else:
        Base = b.opts_base('linker', case['endo'], case['exo'])
    A = type('AliasedL', (AliasMixin, Base), {'ALIASES': dict(m), 'PREFERRED_NAMES': pref})

    def make(cls, aliased):
        span = mk_span(case['span'])
        if kind == 'model':
            return cls(span, strict=strict, **init)
        if kind == 'container':
            obj = cls(span, strict=strict)
            for v in case['variables']:
                obj.add_variable(v, np.array(init[v], dtype=float))
            return obj
        Sub = fo.sub_class(())
        sm = dict(map(tuple, case['sub_m']))
        SubA = type('SubAliasedL', (AliasMixin, Sub), {'ALIASES': dict(sm)}) if aliased else Sub
        return cls({'a': SubA(mk_span(case['span']), **case['sub_init']), 'b': Sub(mk_span(case['span']), G=2.5)}, **init)
    with b.time_limit(4.0):
        a = make(A, True)
    p = make(Base, False)
    parts = {'main': (a, p, m, list(case['variables']))}
    if kind == 'linker':
        parts['sub'] = (a.submodels['a'], p.submodels['a'], dict(map(tuple, case['sub_m'])), ['Y', 'G'])
    return A, Base, parts


def obj_state(obj):
    """props.c18.full_state, also for a plain container (which has no `names`)."""
    b = base()
    if 'names' in obj.__dict__:
        return b.full_state(obj, b.MIXIN_ATTRS)
    st = {'index': list(obj.index), 'span': repr(obj.span),
          'keys': sorted(k for k in obj.__dict__ if k not in b.MIXIN_ATTRS)}
    for nm in obj.index:
        st['_' + nm] = b.fingerprint(obj.__dict__['_' + nm])
    for k, v in obj.__dict__.items():
        if k not in b.MIXIN_ATTRS and not k.startswith('_') and k not in ('span', 'index'):
            st['attr:' + k] = b.fingerprint(v) if isinstance(v, (np.ndarray, np.generic, float)) else repr(v)
    return st


def state_of(parts, side):
    out = {}
    for nm, tup in parts.items():
        for k, v in obj_state(tup[side]).items():
            if k != 'attr:submodels':            # (objects, shown by address; the submodel is a part of its own)
                out[f'{nm}.{k}'] = v
    return out


def series_of(obj):
    return {v: obj.__dict__['_' + v].copy() for v in obj.index}


def apply_label_op(obj, op, name, classes=None, aliased=False):
    """(status, comparable, raw value)"""
    b = base()
    fp = b.fingerprint
    k = op['k']
    try:
        with warnings.catch_warnings():
            warnings.simplefilter('ignore')
            if k == 'get':
                r = obj[name, key_index(op['ix'])]
                return ('ok', fp(r), r)
            if k == 'set':
                obj[name, key_index(op['ix'])] = op['v']
                return ('ok', None, None)
            if k == 'getitem':
                r = obj[name]
                return ('ok', fp(r), r)
            if k == 'setitem':
                obj[name] = op['v']
                return ('ok', None, None)
            if k == 'eval':
                r = obj.eval(eval_source(name, op['ix']))
                return ('ok', fp(r), r)
            if k == 'export':
                df = obj.to_dataframe(use_aliases=True) if aliased and op['use_aliases'] else obj.to_dataframe()
                return ('ok', (df.shape, [ar.plain_text(x) for x in df.index], b.frame_cols(df)), df)
            if k == 'solve':
                r = obj.solve(start=op['start'], end=op['end'], max_iter=5, failures='ignore', errors='ignore')
                return ('ok', repr(r), None)
            if k == 'solve_period':
                r = obj.solve_period(op['period'], max_iter=5, failures='ignore', errors='ignore')
                return ('ok', repr(r), None)
            if k == 'reindex':
                new = obj.reindex(list(op['labels']))
                return ('ok', sorted(obj_state(new).items(), key=lambda kv: kv[0]), new)
            if k in ('ctor', 'from_dataframe'):
                cls = type(obj)
                if k == 'ctor':
                    new = cls(mk_span(op['span']), **{nm: v for nm, v in zip(name, op['vs'])})
                else:
                    idx = mk_span({'type': op['index'], 'labels': op['span']['labels']})
                    new = cls.from_dataframe(ar._int_frame(idx, list(zip(name, op['vs'])), False))
                return ('ok', sorted(obj_state(new).items(), key=lambda kv: kv[0]), new)
            raise ValueError(k)
    except b.Hang:
        raise
    except Exception as e:  # noqa: BLE001
        return ('exc', fo.family(e), None)


def show(r):
    if r[0] == 'exc':
        return r[1]
    raw = r[2]
    if isinstance(raw, (np.ndarray, np.generic)):
        return f'{np.asarray(raw).tolist()}'
    if raw is None:
        return 'ok'
    if hasattr(raw, 'columns'):
        return f'a frame of shape {raw.shape}, index {[ar.plain_text(x) for x in raw.index]}, columns {[ar.plain_text(x) for x in raw.columns]}'
    return 'ok: ' + base().short(r[1])


def show_ix(ix):
    def s(x):
        return 'None' if x is None else repr(x['text']) + ('' if x['form'] == 'str' else f" ({x['form']})")
    if 'l' in ix:
        return s(ix['l'])
    return f"{s(ix.get('a'))}:{s(ix.get('b'))}" + ('' if ix.get('st') is None else f":{ix['st']}")


def m_str(r):
    """An outcome in the vocabulary of the driver (`alias_label_history`)."""
    if r[0] == 'exc':
        return r[1] if r[1] in ('KeyError', 'DimensionError') else 'ValueError'
    raw = r[2]
    if raw is None:
        return 'ok'
    if isinstance(raw, np.ndarray):
        return 'l:' + ','.join(str(int(x)) for x in raw.tolist())
    return 'i:' + str(int(raw))


# ---------------------------------------------------------------------------------------------------------------
# one case

def run_label_case(ctx, rep, case, tcases=None):
    b = base()
    m = dict(map(tuple, case['m']))
    labels = list(case['span']['labels'])
    try:
        A, Base, parts = build_objects(case)
    except b.Hang:
        rep.violate(b.hang_key(m), f'constructor did not return within 4 s for ALIASES={m}', case)
        return 'hang'
    except Exception as e:  # noqa: BLE001
        rep.violate('label-span-ctor:construct', f'constructing the objects on the span {labels} '
                    f'({case["span"]["type"]}) raised {type(e).__name__}: {e} (ALIASES={m})', case)
        return 'construct'
    s_a, s_p = state_of(parts, 0), state_of(parts, 1)
    if s_a != s_p:
        rep.violate('label-span-ctor:construct', f'new instance on the span {labels} differs from the instance of the '
                    f'class without the mixin: {ar.nice_diff(s_a, s_p)} (ALIASES={m})', case)
        return 'construct'
    rep.dist['label-span-type:' + case['span']['type']] += 1
    rep.dist['label-span-kind:' + case['kind']] += 1
    for x in labels:
        rep.dist['label-span-label:' + label_kind(x, m, case['variables'], dict(map(tuple, case.get('sub_m', []))))] += 1
    t_results = []
    t_ok = tcases is not None
    t_final = None

    def snapshot():
        main = parts['main'][0]
        return ';'.join(f'{v}=' + ','.join(str(int(x)) for x in main.__dict__['_' + v].tolist()) for v in case['variables'])
    for i, op in enumerate(case['ops']):
        k = op['k']
        a, p, mm, variables = parts[op['on']]
        other = next((t[2] for nm, t in parts.items() if nm != op['on']), None)
        where = '' if op['on'] == 'main' else " on the linker's alias-enabled submodel"
        if k in ('ctor', 'from_dataframe'):
            op = dict(op, span=case['span'])
            nm_a, nm_p = op['names'], [b.chain_end(mm, x) for x in op['names']]
        elif k in ('export', 'reindex', 'solve', 'solve_period'):
            nm_a = nm_p = None
        else:
            nm_a, nm_p = op['name'], (op['name'] if k == 'eval' else b.chain_end(mm, op['name']))
        before = series_of(a)
        if k in ('solve', 'solve_period') and t_final is None:
            t_final = snapshot()                 # (the solution is not the model's business: its history ends here)
        r_a = apply_label_op(a, op, nm_a, aliased=True)
        r_p = apply_label_op(p, op, nm_p)
        s_a, s_p = state_of(parts, 0), state_of(parts, 1)

        # ---- operations that build or export
        if k in ('ctor', 'from_dataframe', 'reindex', 'export'):
            rep.dist[f'label-span-op:{k}'] += 1
            key = f'label-span-{"ctor" if k != "export" and k != "reindex" else k}:{k}'
            if r_a[:2] != r_p[:2] or s_a != s_p:
                what = ar._show(r_a, r_p) if k != 'export' else show(r_a)
                rep.violate(key, f'op {i} {k}{where} on the span {labels} ({case["span"]["type"]}): {what}; the class '
                            f'without the mixin (canonical names): {ar._show(r_p, r_a) if k != "export" else show(r_p)}'
                            + ('' if s_a == s_p else '; state: ' + ar.nice_diff(s_a, s_p)) + f' (ALIASES={mm})', case)
                return k
            if r_a[0] == 'ok':
                bad = check_built(k, op, r_a[2], labels, mm, variables)
                if bad:
                    rep.violate(key, f'op {i} {k}{where} on the span {labels}: {bad} (ALIASES={mm})', case)
                    return k
            continue
        if k in ('solve', 'solve_period'):
            rep.dist[f'label-span-op:{k}'] += 1
            if r_a[:2] != r_p[:2] or s_a != s_p:
                what = (f"m.solve(start={op['start']!r}, end={op['end']!r})" if k == 'solve' else
                        f"m.solve_period({op['period']!r})")
                rep.violate(f'{KEY_DIVERGES}:{k}', f'op {i} {what}{where} gave {r_a[:2]}; the class without the mixin gave '
                            f'{r_p[:2]}' + ('' if s_a == s_p else '; state: ' + ar.nice_diff(s_a, s_p))
                            + f' (span {labels}, ALIASES={mm})', case)
                return 'solve'
            continue
        if k in ('getitem', 'setitem'):
            if r_a[:2] != r_p[:2] or s_a != s_p:
                rep.violate(f'{KEY_DIVERGES}:{k}', f'op {i} m[{op["name"]!r}]{where}: {show(r_a)}; the class without the '
                            f'mixin through {nm_p!r}: {show(r_p)}' + ('' if s_a == s_p else '; state: ' + ar.nice_diff(s_a, s_p))
                            + f' (span {labels}, ALIASES={mm})', case)
                return 'whole'
            if op['on'] == 'main' and t_final is None:
                t_results.append((op, m_str(r_a)))
            continue

        # ---- label-indexed access
        ix = op['ix']
        path = op_path(op, mm, variables)
        kinds = [(w, label_kind(s['text'], mm, variables, other)) for w, s in ix_labels(ix)]
        for (w, lk), (_, s) in zip(kinds, ix_labels(ix)):
            rep.dist[f'label:{lk}:{k}:{w}' + ('+step' if ix.get('st') is not None else '')] += 1
            rep.dist['label-form:' + s['form']] += 1
            if s['text'] not in labels:
                rep.dist[f'label-not-in-span:{lk}:{k}'] += 1
        if not kinds:
            rep.dist[f'label:none:{k}:slice-open' + ('+step' if ix.get('st') is not None else '')] += 1
        first = ('alias' if op['name'] in b.strip_self(mm) else 'canonical' if op['name'] in variables else 'unknown')
        rep.dist[f'label-first-component:{first}:{k}'] += 1
        hot = any(lk == 'alias-named' for _, lk in kinds)
        key = f'{KEY_RESOLVED if hot else KEY_DIVERGES}:{path}'
        access = (f'm.eval({eval_source(op["name"], ix)!r})' if k == 'eval' else
                  f'm[{op["name"]!r}, {show_ix(ix)}]' + (f' = {op["v"]}' if k == 'set' else ''))
        ctxt = (f' (span {labels} as {case["span"]["type"]}, ALIASES={mm}; labels of the key: '
                + (', '.join(f'{s["text"]!r} is {lk}' for (_, s), (_, lk) in zip(ix_labels(ix), kinds)) or 'none') + ')')
        # (a) the alias-free twin
        if r_a[:2] != r_p[:2] or s_a != s_p:
            rep.violate(key, f'op {i} {access}{where} gave {show(r_a)}; the class without the mixin through {nm_p!r} with '
                        f'the same label gave {show(r_p)}' + ('' if s_a == s_p else '; state: ' + ar.nice_diff(s_a, s_p))
                        + ctxt, case)
            return 'twin'
        # (b) absolutely
        exact = all(s['form'] in ar.EXACT_STR for _, s in ix_labels(ix))
        pos = expected_positions(labels, ix)
        if pos != 'unspecified' and (exact or r_p[0] == 'ok'):
            target = op['name'] if k == 'eval' else b.chain_end(mm, op['name'])
            want_state = {v: x.copy() for v, x in before.items()}
            if target not in before:
                want = ('exc', 'AttributeError' if k == 'eval' else 'KeyError')
            elif pos is None:
                want = ('exc', 'KeyError')
            elif k in ('get', 'eval'):
                sel = before[target][pos[0]] if 'l' in ix else before[target][pos]
                want = ('ok', b.fingerprint(sel))
            else:
                try:
                    if 'l' in ix:
                        want_state[target][pos[0]] = op['v']
                    else:
                        want_state[target][pos] = op['v']
                    want = ('ok', None)
                except Exception as e:  # noqa: BLE001
                    want = ('exc', fo.family(e))
                    want_state = {v: x.copy() for v, x in before.items()}
            after = series_of(a)
            same_state = (list(after) == list(want_state) and
                          all(after[v].dtype == want_state[v].dtype and after[v].tobytes() == want_state[v].tobytes()
                              for v in after))
            if tuple(r_a[:2]) != want or not same_state:
                wanted = (want[1] if want[0] == 'exc' else 'element(s) %s of %r' % (pos, target) if k != 'set' else
                          'cells %s of %r set' % (pos, target))
                changed = [f'{v}: {after[v].tolist()} instead of {want_state[v].tolist()}' for v in after
                           if after[v].tobytes() != want_state[v].tobytes()]
                rep.violate(f'{KEY_CELL}:{path}', f'op {i} {access}{where} gave {show(r_a)}' +
                            ('' if not changed else ' and left ' + '; '.join(changed[:2])) + f'; the property says: {wanted}'
                            + ctxt, case)
                return 'absolute'
            rep.dist['label-absolute-checked'] += 1
        if op['on'] == 'main' and k != 'eval' and t_final is None:
            st = ix.get('st')
            if st is None or st >= 1:
                t_results.append((op, m_str(r_a)))
            elif k == 'set':
                t_ok = False
    if t_ok and t_results:
        req = {'m': case['m'], 'span': labels, 'strict': case['strict'],
               'vars': [[v, case['init'][v]] for v in case['variables']],
               'ops': [t_op(op) for op, _ in t_results]}
        tcases.append((req, ' '.join(r for _, r in t_results) + '|' + (t_final or snapshot()), case))
    return 'ok'


def t_op(op):
    k = op['k']
    if k in ('getitem', 'setitem'):
        out = {'op': k, 'n': op['name']}
    else:
        ix = op['ix']
        if 'l' in ix:
            jx = {'l': ix['l']['text']}
        else:
            jx = {'a': None if ix.get('a') is None else ix['a']['text'],
                  'b': None if ix.get('b') is None else ix['b']['text'], 'st': 1 if ix.get('st') is None else ix['st']}
        out = {'op': 'getat' if k == 'get' else 'setat', 'n': op['name'], 'ix': jx}
    if 'v' in op:
        out['v'] = op['v']
    return out


def check_built(k, op, new, labels, m, variables):
    """Absolute checks on what the constructor / from_dataframe / reindex / the export made of the labels."""
    b = base()
    if k == 'export':
        idx = [ar.plain_text(x) for x in new.index]
        if idx != labels:
            return f'the index of the exported frame is {idx}: index labels must stay labels'
        return None
    want = list(op['labels']) if k == 'reindex' else labels
    got = [ar.plain_text(x) for x in new.span]
    if got != want:
        return f'the span of the new object is {got} instead of {want}: index labels must stay labels'
    if k == 'reindex':
        return None
    for nm, vs in zip(op['names'], op['vs']):
        t = b.chain_end(m, nm)
        if t not in new.index:
            continue
        for j, lab in enumerate(labels):
            try:
                x = new[nm, lab]
            except Exception as e:  # noqa: BLE001
                return f'new[{nm!r}, {lab!r}] raised {type(e).__name__} on the new object (data given as {nm!r}: {vs})'
            if float(x) != float(vs[j]):
                return (f'new[{nm!r}, {lab!r}] is {x} on the new object, the data given as {nm!r} for the period '
                        f'labelled {lab!r} is {vs[j]}')
    return None


# a fixed case: the variant of the mixin that resolves every str of the key (NOT the code) must differ from the code's
# model on it - the comparison with the model is not vacuous
WITNESS = {'m': [['GDP', 'Y'], ['cons', 'C'], ['k1', 'zzz']], 'span': ['GDP', 'Y', 'C', 'p3', 'k1'], 'strict': False,
           'vars': [['Y', [10, 11, 12, 13, 14]], ['C', [20, 21, 22, 23, 24]]],
           'ops': [{'op': 'getat', 'n': 'GDP', 'ix': {'l': 'GDP'}}, {'op': 'getat', 'n': 'Y', 'ix': {'l': 'k1'}},
                   {'op': 'getat', 'n': 'C', 'ix': {'a': 'GDP', 'b': 'C', 'st': 1}},
                   {'op': 'setat', 'n': 'cons', 'ix': {'l': 'GDP'}, 'v': 99}]}
WITNESS_CODE = 'i:10 i:14 l:20,21,22 ok|Y=10,11,12,13,14;C=99,21,22,23,24'
WITNESS_ALL = 'i:11 KeyError l:21,22 ok|Y=10,11,12,13,14;C=20,99,22,23,24'


def check_label_spans(ctx, rep, rng, count):
    b = base()
    tcases = []
    for _ in range(count):
        case = gen_label_case(rng)
        m = dict(map(tuple, case['m']))
        if not b.CYCLIC_OK[0] and not b.is_plain(m):
            continue
        regime = run_label_case(ctx, rep, case, tcases)
        sm = b.strip_self(m)
        ssm = b.strip_self(dict(map(tuple, case.get('sub_m', []))))
        through = any(s['text'] in (ssm if op['on'] == 'sub' else sm)
                      for op in case['ops'] if 'ix' in op for _, s in ix_labels(op['ix']))
        rep.case(('L', json.dumps(case, sort_keys=True)), nontrivial=through,
                 sample=b.sample_once('L', 41, rep.evaluations, {'part': 'L', 'case': case, 'regime': regime}))
        rep.dist['label-span:' + regime] += 1
    if not ctx.oracle_only:
        outs = ctx.drive([b.line('alias_label_history', c) for c, _, _ in tcases] +
                         [b.line('alias_label_history', WITNESS), b.line('alias_label_history', dict(WITNESS, all=True))])
        for (c, impl, jc), a in zip(tcases, outs):
            if a != impl:
                rep.disagree('label-indexed access on a span of names (results of every operation, final series): '
                             'model != impl', jc, a, impl)
        if outs[-2] != WITNESS_CODE or outs[-1] != WITNESS_ALL:
            rep.disagree('label access, fixed witness: the model of the code / of the variant that resolves labels too',
                         WITNESS, ' ## '.join(outs[-2:]), WITNESS_CODE + ' ## ' + WITNESS_ALL)
        rep.dist['label-span-model-compared'] += len(tcases)
