#!/bin/sh
# Final confirmation as the brief prescribes: apply each seeded change to /repo ITSELF, run the property's quick check
# (which rebuilds from /repo's working tree), undo with `git -C /repo checkout -- .`.  Never commits anything to /repo.
# Must only run when nothing else is using /repo.  ONLY=11,12 restricts to the seeds Cxx_11 and Cxx_12.  Writes seeded/CONFIRMED_IN_REPO.json.
cd /verif || exit 2
[ -z "$(git -C /repo status --porcelain)" ] || { echo "/repo is not clean"; exit 2; }
rm -rf /verif/.ev_backup; cp -r evidence /verif/.ev_backup
out=seeded/CONFIRMED_IN_REPO.json
echo "{" > $out.tmp
first=1
for d in seeded/C??_*; do
  s=$(basename $d); p=${s%%_*}
  if [ -n "${ONLY:-}" ]; then case ",$ONLY," in *",${s##*_},"*) ;; *) continue;; esac; fi
  [ -f $d/patch.diff ] || continue
  if ! git -C /repo apply /verif/$d/patch.diff 2>/dev/null; then r="patch-does-not-apply"; else
    o=$(./check $p quick 2>&1); code=$?
    if echo "$o" | grep -q "^VIOLATION property=$p"; then r="detected"; else r="MISSED(exit $code)"; fi
    echo "$o" | grep -q "no-failing-input-found" && r="$r no-failing-input-found"
  fi
  git -C /repo checkout -- . ; git -C /repo clean -fdq
  [ $first = 1 ] || echo "," >> $out.tmp; first=0
  printf ' "%s": "%s"' "$s" "$r" >> $out.tmp
  echo "$s $r"
done
printf '\n, "_repo_head": "%s"\n}\n' "$(git -C /repo rev-parse --short HEAD)" >> $out.tmp
mv $out.tmp $out
cp /verif/.ev_backup/* evidence/; rm -rf /verif/.ev_backup
[ -z "$(git -C /repo status --porcelain)" ] && echo "/repo clean again"
