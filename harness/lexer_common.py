"""Shared by C13/C14: canonical views of the real text-level parser functions (term_re.finditer,
split_equations_iter, parse_equation_terms, parse_equation) in the wire format of lean/Driver/Lexer.lean, the
driving alphabet, and a persistent driver process for bulk comparisons."""
import json, os, subprocess, sys

import lean_bridge

from fsic import parser as P
from fsic.exceptions import ParserError, SymbolError

# the property's driving alphabet (C13 quantifier)
ALPHABET = ['Y', 'X', 'e', '1', '_', ' ', '\n', '=', '+', '-', '*', '/', '.', ',', '(', ')', '[', ']', '{', '}',
            '<', '>', '`', '#', "'", 'é']
assert len(ALPHABET) == 26

KINDS = ['_VERBATIM', '_INVALID', '_KEYWORD', '_FUNCTION', '_PARAMETER', '_ERROR', '_VARIABLE']


def cps(s):
    return '.'.join(str(ord(c)) for c in s)


def uncps(t):
    return ''.join(chr(int(x)) for x in t.split('.')) if t else ''


def arr(s):
    return json.dumps([ord(c) for c in s], separators=(',', ':'))


def line(kind, s):
    return kind + '\t' + arr(s)


def exc_class(e):
    """Exception -> the small enum of DESIGN §3.1 (messages dropped)."""
    if isinstance(e, IndentationError):
        return 'IndentationError'
    if isinstance(e, ParserError):
        return 'ParserError'
    if isinstance(e, SymbolError):
        return 'SymbolError'
    return type(e).__name__


# ---- canonical views of the implementation -------------------------------------------------------------------

def impl_scan(s):
    out = []
    for m in P.term_re.finditer(s):
        gd = m.groupdict()
        keys = [k for k in KINDS if gd.get(k) is not None]
        kind = keys[0][1:] if len(keys) == 1 else 'AMBIGUOUS' + repr(keys)
        name = gd[keys[0]] if keys else ''
        ix = gd.get('INDEX')
        out.append(f"{kind},{cps(name)},{'-' if ix is None else 'i' + cps(ix)},{m.start()},{m.end()}")
    return ';'.join(out)


def impl_split(s):
    """Statements yielded before the generator stops + how it stops."""
    got = []
    end = 'ok'
    try:
        for st in P.split_equations_iter(s):
            got.append(st)
    except Exception as e:  # noqa: BLE001
        end = exc_class(e)
    return ';'.join(cps(x) for x in got) + '|' + end


TYPE_OF_KIND = {'VARIABLE': None, 'PARAMETER': 'PARAMETER', 'ERROR': 'ERROR', 'FUNCTION': 'FUNCTION',
                'KEYWORD': 'KEYWORD', 'VERBATIM': 'VERBATIM', 'INVALID': 'INVALID'}


def impl_term(t):
    ix = t.index_
    if ix is None:
        i = 'n'
    elif isinstance(ix, int):
        i = f'i{ix}'
    else:
        i = 's' + cps(ix)
    return f'{t.type.name},{cps(t.name)},{i}'


def model_terms(lhs, rhs):
    """Model reply term lists -> the impl's flat list with VARIABLE replaced by ENDOGENOUS / EXOGENOUS."""
    out = []
    for side, rep in ((lhs, 'ENDOGENOUS'), (rhs, 'EXOGENOUS')):
        for t in (side.split(';') if side else []):
            k, rest = t.split(',', 1)
            out.append((rep if k == 'VARIABLE' else k) + ',' + rest)
    return ';'.join(out)


def impl_equation_terms(s):
    try:
        ts = P.parse_equation_terms(s)
    except Exception as e:  # noqa: BLE001
        return 'err:' + exc_class(e)
    return 'ok|' + ';'.join(impl_term(t) for t in ts)


def cmp_equation_terms(model, impl):
    """-> 'agree' | 'disagree'"""
    if model.startswith('err:'):
        want = {'err:ParserError': 'err:ParserError'}.get(model)
        return 'agree' if impl == want else 'disagree'
    _, l, r = model.split('|')
    return 'agree' if impl == 'ok|' + model_terms(l, r) else 'disagree'


FORMAT_EXC = ('ValueError', 'IndexError', 'KeyError')


def impl_parse_equation(s):
    """-> dict(kind='empty'|'verbatim'|'parsed'|'err', ...)"""
    try:
        syms = P.parse_equation(s)
    except Exception as e:  # noqa: BLE001
        return {'kind': 'err', 'cls': exc_class(e)}
    if not s.strip():
        return {'kind': 'empty'}
    if len(syms) == 1 and syms[0].name is None and syms[0].type == P.Type.VERBATIM:
        return {'kind': 'verbatim', 'equation': syms[0].equation, 'code': syms[0].code}
    eqs = {(x.equation, x.code) for x in syms if x.equation is not None}
    return {'kind': 'parsed', 'eqs': eqs, 'terms': impl_equation_terms(s)}


def cmp_parse_equation(model, impl):
    """Model reply of `parse_equation_text` vs impl view.  -> ('agree'|'skip:<why>'|'disagree', detail)"""
    if model == 'empty':
        return ('agree' if impl['kind'] == 'empty' else 'disagree'), ''
    if model.startswith('err:'):
        cls = model[4:]
        if impl['kind'] != 'err':
            return 'disagree', ''
        if cls in ('ParserError', 'IndentationError', 'SymbolError'):
            return ('agree' if impl['cls'] == cls else 'disagree'), ''
        if cls == 'FormatFailure':
            return ('agree' if impl['cls'] in FORMAT_EXC else 'disagree'), ''
        return 'disagree', ''
    parts = model.split('|')
    if parts[0] == 'verbatim':
        ok = impl['kind'] == 'verbatim' and cps(impl['equation']) == parts[1] and cps(impl['code']) == parts[2]
        return ('agree' if ok else 'disagree'), ''
    # parsed|lhs|rhs|eq|code
    _, l, r, eq, code = parts
    if eq == 'unmodelled' or code == 'unmodelled':
        return 'skip:format-unmodelled', ''
    if impl['kind'] == 'err':
        return 'disagree', ''
    if impl['kind'] != 'parsed':
        return 'disagree', ''
    if impl['terms'] != 'ok|' + model_terms(l, r):
        return 'disagree', 'terms'
    want = (uncps(eq[3:]), uncps(code[3:]))
    if impl['eqs'] and impl['eqs'] != {want}:
        return 'disagree', 'equation/code'
    return 'agree', ('' if impl['eqs'] else 'no-endogenous')


def impl_format(t, args):
    try:
        return 'ok:' + cps(t.format(*args))
    except (ValueError, IndexError, KeyError):
        return 'fail'
    except Exception as e:  # noqa: BLE001
        return 'other:' + type(e).__name__


def py_normalise(s):
    import re
    s = re.sub(r'\s+', ' ', s)
    s = re.sub(r'\(\s+', '(', s)
    return re.sub(r'\s+\)', ')', s)


# ---- driver -------------------------------------------------------------------------------------------------

def drive(lines):
    """One native driver process per batch (start-up is a few ms)."""
    return lean_bridge.drive(lines)


# ---- token lists for scan_render (Proofs/Lemmas/Tokens.lean) ------------------------------------------------------
# An independent, deliberately simple tokeniser of a script statement into the token grammar of the Lean proof
# (it does not use fsic's regexes).  The driver checks the result: well-formed, renders back to the text, scans to
# the expected matches.

import keyword as _kw

_ID0 = 'ABCDEFGHIJKLMNOPQRSTUVWXYZabcdefghijklmnopqrstuvwxyz_'
_IDC = _ID0 + '0123456789'


def _cp(s):
    return [ord(c) for c in s]


def _index_at(s, i):
    """'[' w1 text w2 ']' starting at s[i] -> (json, next position) or (None, i)"""
    if i >= len(s) or s[i] != '[':
        return None, i
    j = s.find(']', i)
    if j < 0:
        return None, i
    inner = s[i + 1:j]
    text = inner.strip()
    lead = inner[:len(inner) - len(inner.lstrip())]
    trail = inner[len(inner.rstrip()):] if text else ''
    return {'w1': _cp(lead), 't': _cp(text), 'w2': _cp(trail)}, j + 1


def tokenise(s):
    toks, chunk, i, n = [], [], 0, len(s)

    def flush():
        if chunk:
            toks.append({'k': 'chunk', 'cs': _cp(''.join(chunk))})
            chunk.clear()

    while i < n:
        c = s[i]
        if c == '`':
            j = s.find('`', i + 2)
            if j > 0 and '\n' not in s[i + 1:j] and i + 1 < n:
                flush()
                toks.append({'k': 'verb', 'cs': _cp(s[i + 1:j])})
                i = j + 1
                continue
        if c in _ID0:
            j = i
            while j < n and s[j] in _IDC:
                j += 1
            ident = s[i:j]
            if _kw.iskeyword(ident) and not (j < n and (s[j].isalnum() or s[j] == '_')):
                flush()
                toks.append({'k': 'kw', 'n': _cp(ident)})
                i = j
                continue
            k = j
            while k < n and (s[k] in _IDC or s[k] == '.'):
                k += 1
            m = k
            while m < n and s[m].isspace():
                m += 1
            if m < n and s[m] == '(':
                flush()
                toks.append({'k': 'func', 'n': _cp(s[i:k]), 'w': _cp(s[k:m])})
                i = m
                continue
            ix, nxt = _index_at(s, j)
            flush()
            toks.append({'k': 'var', 'n': _cp(ident), 'ix': ix})
            i = nxt
            continue
        if c in '{<':
            close = '}' if c == '{' else '>'
            j = i + 1
            while j < n and s[j].isspace():
                j += 1
            k = j
            while k < n and s[k] in (_IDC if k > j else _ID0):
                k += 1
            m = k
            while m < n and s[m].isspace():
                m += 1
            if k > j and m < n and s[m] == close:
                ix, nxt = _index_at(s, m + 1)
                flush()
                toks.append({'k': 'param' if c == '{' else 'err', 'w1': _cp(s[i + 1:j]), 'n': _cp(s[j:k]),
                             'w2': _cp(s[k:m]), 'ix': ix})
                i = nxt
                continue
            if c == '<':
                flush()
                toks.append({'k': 'lt'})
                i += 1
                continue
        chunk.append(c)
        i += 1
    flush()
    return toks


def wf_line(s):
    return 'wf_check\t' + json.dumps({'toks': tokenise(s), 'text': _cp(s)}, separators=(',', ':'))
