"""Shared by the expression-level properties (C01, C20): grammar AST -> model tokens, a layout-insensitive lexer,
canonical trees of Python code / normalised equations, a recording ndarray, and the driver of the real fsic code.

Nothing here knows what fsic *should* do except through `gen_scripts` (the meaning of a script) — the real code is
only run, never consulted for expectations."""
import ast, json, re, struct, warnings

import numpy as np

import gen_scripts as gs


# ---------------------------------------------------------------------------------------------------------------
# grammar AST -> token list of the Lean model (M4).  Mirrors gen_scripts.render_expr's parenthesisation exactly,
# so that `render(prog, layout)` is one of the texts of these tokens.

def term_tok(t):
    if isinstance(t.index, str):
        label = t.index[1:-1] if t.index.startswith('`') else t.index
        return ['a', t.kind, t.name, label]
    return ['a', t.kind, t.name, t.offset]


def expr_toks(e, ctx=0):
    p = gs.prec(e)
    P = gs.PREC
    if isinstance(e, gs.Term):
        out = [term_tok(e)]
    elif isinstance(e, gs.Num):
        out = [['c', '-'], ['c', e.text[1:]]] if e.text.startswith('-') else [['c', e.text]]
    elif isinstance(e, gs.Verb):
        out = [['v', e.text]]
    elif isinstance(e, gs.Call):
        out = [['f', e.fname], ['c', '(']]
        for i, a in enumerate(e.args):
            if i:
                out.append(['c', ','])
            out += expr_toks(a, 0)
        out.append(['c', ')'])
    elif isinstance(e, gs.Un):
        if e.op == '-':
            out = [['c', '-']] + expr_toks(e.e, P['neg'])
        else:
            out = [['k', 'not']] + expr_toks(e.e, P['not'])
    elif isinstance(e, gs.IfElse):
        out = (expr_toks(e.a, P['ifelse'] + 1) + [['k', 'if']] + expr_toks(e.c, P['ifelse'] + 1) + [['k', 'else']] +
               expr_toks(e.b, P['ifelse']))
    elif isinstance(e, gs.Bin):
        if e.op == '**':
            l, r = expr_toks(e.l, p + 1), expr_toks(e.r, P['neg'])
        elif e.op in gs.CMP:
            l, r = expr_toks(e.l, p + 1), expr_toks(e.r, p + 1)
        else:
            l, r = expr_toks(e.l, p), expr_toks(e.r, p + 1)
        out = l + [['k', e.op] if e.op in ('and', 'or') else ['c', e.op]] + r
    else:
        raise AssertionError(e)
    if p < ctx:
        out = [['c', '(']] + out + [['c', ')']]
    return out


def stmt_toks(eq, wrap=False):
    rhs = expr_toks(eq.rhs, 0)
    if wrap:
        rhs = [['c', '(']] + rhs + [['c', ')']]
    return [term_tok(eq.lhs), ['c', '=']] + rhs


def prog_toks(prog, layout=gs.PLAIN):
    return [stmt_toks(st, layout.wrap_rhs) for st in prog.statements if isinstance(st, gs.Equation)]


def equations(prog):
    return [st for st in prog.statements if isinstance(st, gs.Equation)]


# ---------------------------------------------------------------------------------------------------------------
# layout-insensitive lexer (Python lexemes; whitespace dropped; a verbatim fragment is one lexeme)

LEX = re.compile(r"`[^`]*`|'[^']*'|\"[^\"]*\"|\d+\.\d*|\.\d+|\d+|[A-Za-z_][A-Za-z_0-9]*|\*\*|<=|>=|==|!=|\S")


def lex(text):
    return LEX.findall(text)


def lex_all(lexemes):
    """Model lexemes (one per model token part) -> Python lexemes (`np.exp` -> np . exp)."""
    out = []
    for l in lexemes:
        out += lex(l)
    return out


# ---------------------------------------------------------------------------------------------------------------
# canonical trees.  The Lean driver prints ["assign", target, expr] with
#   ["slot", x, k] | ["item", x, label] | ["num", text] | ["verb", text] | ["neg"|"not", e] | [binop, l, r] |
#   ["and"|"or", l, r] | ["call", name, [args]] | ["ite", a, c, b]
# `py_tree` prints the same for Python's own AST of a statement; anything outside that language becomes
# ["?", ast.dump] (and so never equals a model tree).

BINOPS = {ast.Add: 'add', ast.Sub: 'sub', ast.Mult: 'mul', ast.Div: 'div', ast.Pow: 'pow'}
CMPOPS = {ast.Lt: 'lt', ast.Gt: 'gt', ast.LtE: 'le', ast.GtE: 'ge', ast.Eq: 'eq', ast.NotEq: 'ne'}


def dotted(node):
    if isinstance(node, ast.Name):
        return node.id
    if isinstance(node, ast.Attribute):
        base = dotted(node.value)
        return None if base is None else base + '.' + node.attr
    return None


def t_index(node):
    """`t`, `t+k`, `t-k` -> k; anything else -> None."""
    if isinstance(node, ast.Name) and node.id == 't':
        return 0
    if (isinstance(node, ast.BinOp) and isinstance(node.left, ast.Name) and node.left.id == 't'
            and isinstance(node.right, ast.Constant) and type(node.right.value) is int
            and isinstance(node.op, (ast.Add, ast.Sub))):
        return node.right.value if isinstance(node.op, ast.Add) else -node.right.value
    return None


def py_tree(node, src, mode):
    """mode 'code': terms are self._x[...] / self['x', label]; mode 'eq': terms are x[...]"""
    rec = lambda n: py_tree(n, src, mode)  # noqa: E731
    if isinstance(node, ast.Module) and len(node.body) == 1:
        return rec(node.body[0])
    if isinstance(node, ast.Expression):
        return rec(node.body)
    if isinstance(node, ast.Assign) and len(node.targets) == 1:
        return ['assign', rec(node.targets[0]), rec(node.value)]
    if isinstance(node, ast.Subscript):
        v = node.value
        if mode == 'code':
            if (isinstance(v, ast.Attribute) and isinstance(v.value, ast.Name) and v.value.id == 'self'
                    and v.attr.startswith('_')):
                k = t_index(node.slice)
                if k is not None:
                    return ['slot', v.attr[1:], k]
            if (isinstance(v, ast.Name) and v.id == 'self' and isinstance(node.slice, ast.Tuple)
                    and len(node.slice.elts) == 2 and isinstance(node.slice.elts[0], ast.Constant)
                    and isinstance(node.slice.elts[0].value, str)):
                return ['item', node.slice.elts[0].value, ast.get_source_segment(src, node.slice.elts[1])]
        else:
            if isinstance(v, ast.Name):
                k = t_index(node.slice)
                if k is not None:
                    return ['slot', v.id, k]
                return ['item', v.id, ast.get_source_segment(src, node.slice)]
    if isinstance(node, ast.Constant) and type(node.value) in (int, float):
        return ['num', ast.get_source_segment(src, node)]
    if isinstance(node, ast.UnaryOp) and isinstance(node.op, ast.USub):
        return ['neg', rec(node.operand)]
    if isinstance(node, ast.UnaryOp) and isinstance(node.op, ast.Not):
        return ['not', rec(node.operand)]
    if isinstance(node, ast.BinOp) and type(node.op) in BINOPS:
        return [BINOPS[type(node.op)], rec(node.left), rec(node.right)]
    if isinstance(node, ast.Compare) and len(node.ops) == 1 and type(node.ops[0]) in CMPOPS:
        return [CMPOPS[type(node.ops[0])], rec(node.left), rec(node.comparators[0])]
    if isinstance(node, ast.BoolOp):
        name = 'and' if isinstance(node.op, ast.And) else 'or'
        out = rec(node.values[0])
        for v in node.values[1:]:
            out = [name, out, rec(v)]
        return out
    if isinstance(node, ast.IfExp):
        return ['ite', rec(node.body), rec(node.test), rec(node.orelse)]
    if isinstance(node, ast.Call) and not node.keywords and dotted(node.func) is not None:
        return ['call', dotted(node.func), [rec(a) for a in node.args]]
    return ['?', ast.dump(node)]


def code_tree(code):
    try:
        return py_tree(ast.parse(code), code, 'code')
    except SyntaxError as e:
        return ['?syntax', str(e.msg)]


def eq_tree(equation):
    """Tree of a normalised equation (it is Python syntax once verbatim fragments are parenthesised)."""
    src = re.sub(r'`([^`]*)`', r'(\1)', equation)
    try:
        return py_tree(ast.parse(src), src, 'eq')
    except SyntaxError as e:
        return ['?syntax', str(e.msg)]


def expand_verb(tree, mode):
    """Replace the model's ["verb", text] leaves by Python's own tree of the fragment."""
    if isinstance(tree, list):
        if len(tree) == 2 and tree[0] == 'verb' and isinstance(tree[1], str):
            try:
                return py_tree(ast.parse(tree[1], mode='eval'), tree[1], mode)
            except SyntaxError:
                return ['?syntax-verb', tree[1]]
        return [expand_verb(x, mode) for x in tree]
    return tree


# ---------------------------------------------------------------------------------------------------------------
# recording arrays

class RecArray(np.ndarray):
    """ndarray that logs every element read / write as ('r'|'w', series name, index)."""

    def __new__(cls, arr, name, log):
        obj = np.asarray(arr).view(cls)
        obj._rname = name
        obj._rlog = log
        return obj

    def __array_finalize__(self, obj):
        self._rname = getattr(obj, '_rname', None)
        self._rlog = getattr(obj, '_rlog', None)

    def __getitem__(self, k):
        if self._rlog is not None:
            self._rlog.append(('r', self._rname, k))
        return super().__getitem__(k)

    def __setitem__(self, k, v):
        if self._rlog is not None:
            self._rlog.append(('w', self._rname, k))
        super().__setitem__(k, v)


def install_recorders(model, log):
    for name in model.names:
        model.__dict__['_' + name] = RecArray(model.__dict__['_' + name], name, log)


def remove_recorders(model):
    for name in model.names:
        model.__dict__['_' + name] = np.asarray(model.__dict__['_' + name]).view(np.ndarray)


def norm_pos(k, n):
    """Logged index -> position (Python wrap-around made visible) or the raw key when not an integer."""
    if isinstance(k, (int, np.integer)):
        return int(k) + n if k < 0 else int(k)
    return repr(k)


# ---------------------------------------------------------------------------------------------------------------
# floats as bit patterns

def bits(x):
    return struct.unpack('<Q', struct.pack('<d', float(x)))[0]


NAN_BITS = 0x7ff8000000000000


def canon_bits(b):
    """IEEE bit pattern with every NaN (any sign / payload) sent to one representative: which NaN an invalid
    operation produces is not fixed by IEEE-754 and Lean's `Float.toBits` canonicalises NaNs anyway."""
    return NAN_BITS if (b & 0x7ff0000000000000) == 0x7ff0000000000000 and (b & 0x000fffffffffffff) else b


def same_float(a, b):
    a, b = float(a), float(b)
    if a != a and b != b:
        return True
    return bits(a) == bits(b)


def as_float(a):
    """Series -> float64 array; exact for float64/float32/int.  An object series may hold anything the equations
    produced (Python's `(-2.0) ** 0.5` is complex): non-real elements become NaN."""
    a = np.asarray(a)
    if a.dtype != object:
        return np.asarray(a, dtype=float)

    def one(x):
        try:
            return float('nan') if isinstance(x, (complex, np.complexfloating)) else float(x)
        except (TypeError, ValueError):
            return float('nan')
    return np.array([one(x) for x in a], dtype=float)


def same_arrays(d1, d2):
    """Bit-exact (NaN-aware) equality of two name -> array dicts; returns list of differing (name, pos, a, b)."""
    diffs = []
    for name in d1:
        a, b = as_float(d1[name]), as_float(d2[name])
        if a.shape != b.shape:
            diffs.append((name, -1, a.shape, b.shape))
            continue
        neq = ~((a.view(np.uint64) == b.view(np.uint64)) | (np.isnan(a) & np.isnan(b)))
        for p in np.nonzero(neq)[0]:
            diffs.append((name, int(p), float(a[p]), float(b[p])))
    return diffs


# ---------------------------------------------------------------------------------------------------------------
# the real code

class Built:
    """parse_model + build_model of one script text; `error` holds the exception class name if either raised."""

    def __init__(self, text):
        import fsic
        self.text = text
        self.symbols = None
        self.Model = None
        self.error = None
        try:
            with warnings.catch_warnings():
                warnings.simplefilter('ignore')
                self.symbols = fsic.parse_model(text)
                self.Model = fsic.build_model(self.symbols)
        except Exception as e:  # noqa: BLE001
            self.error = type(e).__name__
            self.error_msg = str(e)[:300]

    def executed_at_parse(self):
        """Did the rejection look like the statement having been EXECUTED by parse_model's syntax check (the defect
        repaired by a900a8c: a constant sub-expression that raises or warns, 1/(2-2), log(-7))?  Only used to give a
        regression of that repair its own violation key."""
        return self.error in ('ZeroDivisionError', 'OverflowError') or (
            self.error == 'ParserError' and ('Unexpected warning' in self.error_msg
                                             or 'Unexpected number of warnings' in self.error_msg))

    def endogenous(self):
        """name -> symbol, for symbols that carry an equation."""
        return {s.name: s for s in self.symbols if s.equation is not None and s.name is not None}

    def instance(self, n, data, span=None):
        m = self.Model(span if span is not None else range(n))
        for name, arr in data.items():
            if name in m.names:
                m.__dict__['_' + name][:] = arr
        return m


def evaluate_body(Model):
    """Statements of `_evaluate` inside Model.CODE (docstring dropped), as (source, ast node) pairs."""
    src = Model.CODE
    tree = ast.parse(src)
    for node in ast.walk(tree):
        if isinstance(node, ast.FunctionDef) and node.name == '_evaluate':
            body = node.body
            if body and isinstance(body[0], ast.Expr) and isinstance(getattr(body[0], 'value', None), ast.Constant) \
                    and isinstance(body[0].value.value, str):
                body = body[1:]
            return [(src, b) for b in body]
    return None


def run_evaluate(model, t):
    """model._evaluate(t) with warnings silenced; returns exception class name or None."""
    try:
        with warnings.catch_warnings(), np.errstate(all='ignore'):
            warnings.simplefilter('ignore')
            model._evaluate(t)
        return None
    except Exception as e:  # noqa: BLE001
        return type(e).__name__


DEFAULT_ERRSTATE = dict(divide='warn', over='warn', invalid='warn', under='ignore')     # NumPy's documented default


def run_reference(prog, data, t, locate=None, env=None):
    """gen_scripts.reference_pass under NumPy's DEFAULT error state, set explicitly (a process-global change made by
    the code under test cannot leak into the oracle).  Returns (writes, reads, exception class name or None);
    `run_reference.faults` holds the floating-point warnings of the last call (divide / overflow / invalid — never
    underflow, which NumPy ignores by default)."""
    run_reference.faults = []
    try:
        with warnings.catch_warnings(record=True) as rec, np.errstate(**DEFAULT_ERRSTATE):
            warnings.simplefilter('always')
            try:
                w, r = gs.reference_pass(prog, data, t, locate=locate, env=env)
            finally:
                run_reference.faults = [str(x.message) for x in rec if issubclass(x.category, Warning)]
        return w, r, None
    except Exception as e:  # noqa: BLE001
        return None, None, type(e).__name__


run_reference.faults = []


def literals_of(toks):
    """Number lexemes of a token list -> IEEE bits of the value Python gives them."""
    out = {}
    for st in toks:
        for tk in st:
            if tk[0] == 'c' and re.match(r'^(\d|\.\d)', tk[1]):
                try:
                    out[tk[1]] = bits(ast.literal_eval(tk[1]))
                except Exception:  # noqa: BLE001
                    pass
    return out


def line(kind, obj):
    return kind + '\t' + json.dumps(obj, separators=(',', ':'))


# ---- programs <-> JSON (replay files) ----------------------------------------------------------------------------

def e2j(e):
    if isinstance(e, gs.Term):
        return ['T', e.kind, e.name, e.index]
    if isinstance(e, gs.Num):
        return ['N', e.text]
    if isinstance(e, gs.Verb):
        return ['V', e.text]
    if isinstance(e, gs.Un):
        return ['U', e.op, e2j(e.e)]
    if isinstance(e, gs.Bin):
        return ['B', e.op, e2j(e.l), e2j(e.r)]
    if isinstance(e, gs.Call):
        return ['C', e.fname, [e2j(a) for a in e.args]]
    if isinstance(e, gs.IfElse):
        return ['I', e2j(e.a), e2j(e.c), e2j(e.b)]
    raise AssertionError(e)


def j2e(j):
    k = j[0]
    if k == 'T':
        return gs.Term(j[1], j[2], j[3])
    if k == 'N':
        return gs.Num(j[1])
    if k == 'V':
        return gs.Verb(j[1])
    if k == 'U':
        return gs.Un(j[1], j2e(j[2]))
    if k == 'B':
        return gs.Bin(j[1], j2e(j[2]), j2e(j[3]))
    if k == 'C':
        return gs.Call(j[1], tuple(j2e(a) for a in j[2]))
    if k == 'I':
        return gs.IfElse(j2e(j[1]), j2e(j[2]), j2e(j[3]))
    raise AssertionError(j)


def p2j(prog):
    return [[e2j(st.lhs), e2j(st.rhs)] for st in equations(prog)]


def j2p(j):
    return gs.Program([gs.Equation(j2e(l), j2e(r)) for l, r in j])



class TPos(int):
    """The value of `t` inside a normalised equation: `t`, `t+k`, `t-k` stay positions, anything else is a label."""

    def __add__(self, k):
        return TPos(int(self) + k)

    def __sub__(self, k):
        return TPos(int(self) - k)


class Ser:
    """Series for evaluating a normalised equation as Python: positions (`t±k`) and span labels."""

    def __init__(self, arr, span):
        self.arr, self.span = arr, span

    def _p(self, k):
        return int(k) if isinstance(k, TPos) else self.span.index(k)

    def __getitem__(self, k):
        return self.arr[self._p(k)]

    def __setitem__(self, k, v):
        self.arr[self._p(k)] = v



def make_locate(span):
    """Index text of a named period (quoted, or between backticks) -> position in the span."""
    import ast

    def locate(ix):
        return span.index(ast.literal_eval(ix[1:-1] if ix.startswith('`') else ix))
    return locate




class _Stop(Exception):
    pass


def has_failing_constant(prog):
    """Would executing some statement on its own (what parse_model's syntax check does) raise or warn BEFORE the
    first term is read?  That is the case exactly when a constant part of the expression — reached through constant
    guards only — divides by zero or makes a NumPy function warn."""
    def read(term):
        raise _Stop()

    for st in equations(prog):
        try:
            with warnings.catch_warnings():
                warnings.simplefilter('error')
                gs.eval_expr(st.rhs, read)
        except (_Stop, KeyError, NameError):
            continue
        except Exception:  # noqa: BLE001
            return True
    return False


# ---------------------------------------------------------------------------------------------------------------
# series NAMED like functions.  exp/log/max/min are mapped only when CALLED; a variable, {parameter} or <error> that
# merely carries such a name (no `(` after it) is an ordinary series.  The generators' pools never use these names,
# so programs are renamed after generation.

FUNCTION_LIKE = ['exp', 'log', 'max', 'min', 'abs', 'np', 'sqrt', 'float', 'len', 'maximum', 'log10']


def map_terms(e, f):
    if isinstance(e, gs.Term):
        return f(e)
    if isinstance(e, gs.Un):
        return gs.Un(e.op, map_terms(e.e, f))
    if isinstance(e, gs.Bin):
        return gs.Bin(e.op, map_terms(e.l, f), map_terms(e.r, f))
    if isinstance(e, gs.Call):
        return gs.Call(e.fname, tuple(map_terms(a, f) for a in e.args))
    if isinstance(e, gs.IfElse):
        return gs.IfElse(map_terms(e.a, f), map_terms(e.c, f), map_terms(e.b, f))
    return e


def called_functions(prog):
    out = set()
    for st in equations(prog):
        out.update(gs.functions_of(st.rhs))
    return out


def rename_series(prog, mapping):
    f = lambda t: gs.Term(t.kind, mapping.get(t.name, t.name), t.index)  # noqa: E731
    return gs.Program([gs.Equation(f(st.lhs), map_terms(st.rhs, f)) if isinstance(st, gs.Equation) else st
                       for st in prog.statements])


def with_function_names(rng, prog, k=None):
    """Rename up to k series of the program to function-looking names that the program does not CALL (a name that is
    both a series and a called function is outside the grammar: ParserError / SymbolError).  `np` may be a series
    next to `np.log(...)` calls: the dotted name is a different function name.  Returns (program, names used)."""
    called = called_functions(prog)
    free = [n for n in FUNCTION_LIKE if n not in called]
    names = gs.all_names(prog)
    rng.shuffle(free)
    k = min(len(free), len(names), k if k is not None else rng.randint(1, 3))
    chosen = rng.sample(names, k)
    mapping = {old: new for old, new in zip(chosen, free) if new not in names}
    return rename_series(prog, mapping), sorted(mapping.values())


def verbs_of(e, acc=None):
    acc = [] if acc is None else acc
    if isinstance(e, gs.Verb):
        acc.append(e.text)
    elif isinstance(e, gs.Un):
        verbs_of(e.e, acc)
    elif isinstance(e, gs.Bin):
        verbs_of(e.l, acc)
        verbs_of(e.r, acc)
    elif isinstance(e, gs.Call):
        for a in e.args:
            verbs_of(a, acc)
    elif isinstance(e, gs.IfElse):
        verbs_of(e.a, acc)
        verbs_of(e.c, acc)
        verbs_of(e.b, acc)
    return acc


# Fragments whose TEXT contains what the translation pipeline itself uses as markers / metacharacters: the `{}`
# placeholder of the template, format fields, regex back-references, `$`, backslashes, `[t]`, `self`, `=`/`==`, term
# and index look-alikes inside strings.  All are accepted by /repo HEAD and are numeric primaries.
META_VERBS = ["bool({})", "len({})", "{1: 2}[1]", "len(set())", "len('{0}')", "len('{{}}')", "len('%s')", r"len('\1')",
              r"len('\\')", "len('$')", "len('[t]')", "len('self')", "float(1 == 1)", "int(2 >= 1)", "len('a=b')",
              "len('{X}')", "len('<e>')", "len('Y[-1]')", "dict(a=1)['a']", "len(f'{1}')", "float('{}'.format(1))",
              "(lambda q: q)(2)", "len('{} {}')", "len('()')", "len(')(')"]


def with_inline_verbatim(rng, prog, pool=None):
    """The program with inline verbatim fragments (backticks inside an ordinary equation): number literals are
    replaced by fragments from gen_scripts.VERBS + META_VERBS with probability 1/2; an equation left without one gets
    `+ fragment` or `fragment * (...)`: every equation of the result carries at least one, first / middle / last."""
    pool = pool or (list(gs.VERBS) + META_VERBS)

    def mp(e):
        if isinstance(e, gs.Num):
            return gs.Verb(rng.choice(pool)) if rng.random() < 0.5 else e
        if isinstance(e, gs.Un):
            return gs.Un(e.op, mp(e.e))
        if isinstance(e, gs.Bin):
            return gs.Bin(e.op, mp(e.l), mp(e.r))
        if isinstance(e, gs.Call):
            return gs.Call(e.fname, tuple(mp(a) for a in e.args))
        if isinstance(e, gs.IfElse):
            return gs.IfElse(mp(e.a), mp(e.c), mp(e.b))
        return e
    out = []
    for st in prog.statements:
        if not isinstance(st, gs.Equation):
            out.append(st)
            continue
        rhs = mp(st.rhs)
        if not verbs_of(rhs):
            v = gs.Verb(rng.choice(pool))
            rhs = gs.Bin('+', rhs, v) if rng.random() < 0.5 else gs.Bin('*', v, rhs)
        out.append(gs.Equation(st.lhs, rhs))
    return gs.Program(out)


# {parameters} and <errors> may carry ANY identifier, Python keywords included (`{lambda}`, `{del}`, `<in>`): the code
# reads `self._lambda[t]`, the normalised equation says `lambda[t]`.  (A bare variable cannot be a keyword — rejected —
# and a name used both as a series and as a real keyword of the script is a SymbolError, so the keywords the grammar
# itself uses — if, else, and, or, not — are left out.)
KEYWORD_LIKE = ['lambda', 'del', 'in', 'is', 'None', 'True', 'False', 'pass', 'for', 'as', 'class', 'def', 'from',
                'global', 'import', 'return', 'while', 'with', 'yield', 'try', 'assert', 'raise']


def with_keyword_names(rng, prog):
    """Parameters and errors renamed to Python keywords (returns (program, names used); unchanged when it has none)."""
    kinds = {}
    for st in equations(prog):
        for t in [st.lhs] + gs.terms_of(st.rhs):
            kinds.setdefault(t.name, set()).add(t.kind)
    cands = [nm for nm, k in kinds.items() if k <= {'param', 'error'}]
    if not cands:
        return prog, []
    new = rng.sample(KEYWORD_LIKE, min(len(cands), len(KEYWORD_LIKE)))
    mapping = dict(zip(cands, new))
    return rename_series(prog, mapping), sorted(mapping.values())


def keyword_named(prog):
    import keyword
    return sorted(nm for nm in gs.all_names(prog) if keyword.iskeyword(nm))


def shadowed_function_roots(prog):
    """Series names that are also the (root of a) name of a function called in the program, e.g. the series `np`
    next to `np.log(...)`: the normalised equation TEXT is then not evaluable as plain Python (one name, two meanings),
    although tokens, code and evaluation are unambiguous."""
    roots = {f.split('.')[0] for f in called_functions(prog)}
    return roots & set(gs.all_names(prog))


# ---------------------------------------------------------------------------------------------------------------
# identifier LENGTH and program SCALE

P32 = 'household_disposable_income_real'                         # 32 characters
P64 = P32 + '_per_capita_of_working_age_adult'                  # 64 characters
LONG_NAMES = [P32, P32 + 's', P32 + '_p', P32[:31], P32[:28] + 'x', P32[:27], P64, P64 + 's', P64 + '_2', P64[:63],
              'q' * 64, 'q' * 63 + 'r', 'a' * 27, 'b' * 28, 'k' * 40, 'z' * 31 + '1', 'z' * 31 + '2', 'n' * 33]
LONG_FUNCS = {'np.abs': 'np.ma.core.umath.absolute', 'np.sqrt': 'np.ma.core.umath.sqrt', 'np.maximum': 'np.ma.core.umath.maximum'}
for _short, _long in LONG_FUNCS.items():
    gs.FUNCS.setdefault(_long, gs.FUNCS.get(_short))


def map_calls(e, f):
    if isinstance(e, gs.Call):
        return gs.Call(f(e.fname), tuple(map_calls(a, f) for a in e.args))
    if isinstance(e, gs.Un):
        return gs.Un(e.op, map_calls(e.e, f))
    if isinstance(e, gs.Bin):
        return gs.Bin(e.op, map_calls(e.l, f), map_calls(e.r, f))
    if isinstance(e, gs.IfElse):
        return gs.IfElse(map_calls(e.a, f), map_calls(e.c, f), map_calls(e.b, f))
    return e


def length_bucket(prog):
    k = max(len(nm) for nm in gs.all_names(prog))
    return '<=8' if k <= 8 else '9-27' if k <= 27 else '28-32' if k <= 32 else '33-63' if k <= 63 else '>=64'


def with_long_names(rng, prog):
    """Series renamed to identifiers of up to 64+ characters, several sharing a 32- or 64-character prefix; namespaced
    calls given their long dotted spelling."""
    names = gs.all_names(prog)
    new = rng.sample(LONG_NAMES, min(len(names), len(LONG_NAMES)))
    rng.shuffle(names)
    out = rename_series(prog, dict(zip(names, new)))
    f = lambda fn: LONG_FUNCS.get(fn, fn)  # noqa: E731
    return gs.Program([gs.Equation(st.lhs, map_calls(st.rhs, f)) if isinstance(st, gs.Equation) else st
                       for st in out.statements])


def many_terms_program(rng, k=55):
    """One equation with k+ terms (distinct series of mixed name lengths, lags and leads, parameters and errors)."""
    terms = []
    for i in range(k):
        nm = rng.choice(['x%d' % i, 'x%d_%s' % (i, 'w' * rng.randint(20, 40)), P32 + '_%d' % i])
        kind = rng.choice(['var', 'var', 'var', 'param', 'error'])
        t = gs.Term(kind, nm, rng.choice([None, 0, -1, -2, 1, -1]))
        terms.append(gs.Bin('*', gs.Num(rng.choice(gs.NUMS)), t) if i % 3 else t)
    rhs = terms[0]
    for i, t in enumerate(terms[1:]):
        rhs = gs.Bin('+' if i % 4 else '-', rhs, t)
    return gs.Program([gs.Equation(gs.Term('var', 'Y', None), rhs)])


def many_equations_program(rng, k=110):
    """k+ equations: a chain with Gauss-Seidel dependencies in both directions of the statement order."""
    V = lambda i, ix=None: gs.Term('var', 'v%03d' % i if i % 7 else 'v%03d_%s' % (i, 'u' * 30), ix)  # noqa: E731
    eqs = []
    for i in range(k):
        prev = V((i - 1) % k, rng.choice([None, -1])) if i else gs.Term('var', 'X', -1)
        nxt = V((i + 1) % k, -1)
        rhs = gs.Bin('+', gs.Bin('*', gs.Num(rng.choice(['0.5', '0.25', '0.1'])), prev),
                     gs.Bin('*', gs.Term('param', 'a%d' % (i % 5), None), nxt))
        if i % 10 == 0:
            rhs = gs.Bin('+', rhs, gs.Term('var', 'X', rng.choice([None, 1])))
        eqs.append(gs.Equation(V(i), rhs))
    rng.shuffle(eqs)
    return gs.Program(eqs)


# ---------------------------------------------------------------------------------------------------------------
# HOW the data get into an instance, WHERE the instance comes from, and WHICH data

REGIMES = ['moderate'] * 6 + ['underflow', 'underflow', 'near-overflow', 'signed-zeros', 'subnormal', 'mixed', 'integers']
REGIME_VALUES = {
    'underflow': [1e-160, 3e-155, 1e-200, 2.5e-300, 750.0, 1200.0, 40.0, 1e-5, 0.75, -1e-170, -800.0],
    'near-overflow': [1e308, 1.7e308, 8e307, 1e200, 1e155, 2.0, 0.5, -1e308, 3.0],
    'signed-zeros': [0.0, -0.0, 1.0, -1.0, 5e-324, 2.5],
    'subnormal': [5e-324, 1e-310, 2.2250738585072014e-308, -3e-320, 1.0, 4e-309, 0.5],
    'mixed': [1e-300, 1e300, 1.0, -1e-300, -1e300, 1e-8, 1e8, 709.0, -745.5],
}


def regime_data(r, names, n, regime):
    if regime == 'integers':
        return {nm: np.array([float(r.randint(-5, 9)) for _ in range(n)]) for nm in names}
    vals = REGIME_VALUES[regime]
    def draw():
        v = r.choice(vals)
        w = v * r.choice([1.0, 1.0, 1.0, 1.5, 0.5])
        return w if np.isfinite(w) else v
    return {nm: np.array([draw() for _ in range(n)], dtype=float) for nm in names}


FILL_MODES = ['inplace', 'list', 'tuple', 'ndarray', 'setitem', 'kwargs', 'replace_values', 'scalar', 'elementwise', 'view']
SHARE_KINDS = ['same-object', 'other-variable', 'other-variable-setitem', 'replace-values-other', 'view-of-variable',
               'slice-of-bigger']


def data_plan(case, prog, n):
    """Deterministic (from the case's data seed): the data vector, its regime, and the plan of how every series is
    assigned.  Series of one sharing group get EQUAL values and are handed one and the same ndarray (or each other's
    array, or views of it): by the property they are still separate series."""
    import random
    rng = random.Random(case['data_seed'])
    data0 = gs.random_data(rng, prog, n)
    names = list(data0)
    plan = {'regime': 'moderate', 'modes': {nm: 'inplace' for nm in names}, 'share': None, 'prov': 'fresh',
            'copy_after': False, 'dtype': 'float64'}
    if not case.get('vary', True):
        return data0, plan
    r = random.Random(case['data_seed'] + ':plan')
    plan['regime'] = r.choice(REGIMES)
    if plan['regime'] != 'moderate':
        data0 = regime_data(r, names, n, plan['regime'])
    plan['modes'] = {nm: r.choice(FILL_MODES) for nm in names}
    plan['prov'] = r.choice(['fresh'] * 7 + ['copy', 'copy', 'reindexed'])
    # dtype of the instance: every dtype HEAD evaluates with.  The data are drawn representable in it (the script's
    # meaning is NumPy scalar arithmetic of that dtype on those values)
    plan['dtype'] = r.choice(['float64'] * 7 + ['float32', 'float32', 'int', 'object'])
    if plan['dtype'] != 'float64':
        if plan['prov'] == 'reindexed':
            plan['prov'] = 'copy'
        if plan['dtype'] == 'int':
            plan['regime'] = 'integers'
            data0 = {nm: np.array([r.choice([1, 2, 3, 4, 5, 7, 9, -2, 0]) for _ in range(n)], dtype=np.int64) for nm in names}
        elif plan['dtype'] == 'float32':
            if plan['regime'] not in ('moderate', 'integers', 'signed-zeros'):
                plan['regime'] = 'moderate'
                data0 = gs.random_data(r, prog, n)
            data0 = {nm: a.astype(np.float32) for nm, a in data0.items()}
        else:
            data0 = {nm: np.array([float(x) for x in a], dtype=object) for nm, a in data0.items()}
    plan['copy_after'] = r.random() < 0.1
    if len(names) >= 2 and r.random() < 0.45:
        grp = r.sample(names, r.randint(2, min(3, len(names))))
        plan['share'] = [r.choice(SHARE_KINDS), grp]
        for nm in grp[1:]:
            data0[nm] = data0[grp[0]].copy()
        for nm in grp:
            if plan['modes'][nm] == 'scalar':
                plan['modes'][nm] = 'list'

    shared = set(plan['share'][1]) if plan['share'] else set()
    for nm, mode in plan['modes'].items():
        if mode == 'scalar' and nm not in shared:
            data0[nm] = np.array([data0[nm][0]] * n, dtype=data0[nm].dtype)
    return data0, plan


DTYPES = {'float64': float, 'float32': np.float32, 'int': int, 'object': object}


def build_filled(Model, span, data0, plan):
    """An instance of `Model` on `span` obtained and filled as the plan says; the values it holds are `data0`."""
    import solver_common as sc
    names = list(data0)
    n = len(span)
    modes = dict(plan['modes'])
    share = plan['share']
    followers = set(share[1][1:]) if share else set()
    if share and share[0] in ('same-object', 'slice-of-bigger'):
        modes[share[1][0]] = 'ndarray'
    kw = {nm: data0[nm].copy() for nm, md in modes.items() if md == 'kwargs' and nm not in followers} \
        if plan['prov'] == 'fresh' else {}

    dt = DTYPES[plan.get('dtype', 'float64')]
    dkw = {} if dt is float else {'dtype': dt}

    def make(sp):
        return Model(sp, **dkw, **kw) if len(sp) == n else Model(sp, **dkw)
    with warnings.catch_warnings(), np.errstate(all='ignore'):
        warnings.simplefilter('ignore')
        m = sc.with_provenance(make, span, plan['prov'], names)
    handed = {}
    for nm in names:
        if nm in followers or nm in kw:
            continue
        a = data0[nm].copy()
        md = modes[nm]
        if share and nm == share[1][0] and share[0] == 'slice-of-bigger':
            big = np.concatenate([np.zeros(2, dtype=a.dtype), a, np.zeros(1, dtype=a.dtype)])
            a = big[2:2 + n]
        handed[nm] = a
        if md == 'list':
            setattr(m, nm, [float(x) for x in a])
        elif md == 'tuple':
            setattr(m, nm, tuple(float(x) for x in a))
        elif md in ('ndarray', 'kwargs'):
            setattr(m, nm, a)
        elif md == 'setitem':
            m[nm] = a
        elif md == 'replace_values':
            m.replace_values(**{nm: a})
        elif md == 'scalar':
            setattr(m, nm, float(a[0]))
        elif md == 'elementwise':
            arr = getattr(m, nm)
            for i in range(n):
                arr[i] = a[i]
        elif md == 'view':
            setattr(m, nm, np.concatenate([a, a])[n:])
        else:
            m.__dict__['_' + nm][:] = a
    if share:
        kind, grp = share
        lead = grp[0]
        for f in grp[1:]:
            if kind == 'same-object':
                setattr(m, f, handed[lead])
            elif kind == 'slice-of-bigger':
                setattr(m, f, handed[lead].base[2:2 + n])
            elif kind == 'other-variable':
                setattr(m, f, getattr(m, lead))
            elif kind == 'other-variable-setitem':
                m[f] = m[lead]
            elif kind == 'replace-values-other':
                m.replace_values(**{f: getattr(m, lead)})
            else:
                setattr(m, f, getattr(m, lead)[:])
    if plan['copy_after']:
        m = m.copy()
    return m


def restore(m, data0):
    """Put the data vector back IN PLACE (the arrays — and whatever they share — stay the ones the history produced)."""
    for nm, a in data0.items():
        m.__dict__['_' + nm][:] = a


# ---------------------------------------------------------------------------------------------------------------
# argument FORMS.  Established on /repo HEAD: an integer position may be a Python int or a signed NumPy integer scalar
# (np.int64 / np.int32 / np.intp / np.int16 — what np.flatnonzero, np.argmax, an element of np.arange give), in the
# non-negative or the negative spelling (t - n), and denotes the same period; counts, offset, tolerance and flags may
# be NumPy scalars.  NOT among them: bool (`True` as an index broadcasts over the series) and unsigned NumPy integers
# (`t - k` wraps around in unsigned arithmetic).

INT_FORMS = {'int': int, 'np.int64': np.int64, 'np.int32': np.int32, 'np.intp': np.intp, 'np.int16': np.int16}


def int_form(r, value):
    name = r.choice(['int', 'int', 'np.int64', 'np.int64', 'np.int32', 'np.intp', 'np.int16'])
    return name, INT_FORMS[name](value)


def period_arg(r, t, n):
    """(label, argument) for position t of a span of length n: some integer form, either spelling."""
    neg = r.random() < 0.3
    name, arg = int_form(r, t - n if neg else t)
    return name + (':negative' if neg else ''), arg


def solve_kwargs(r):
    """solve_t keywords for ONE iteration with default error handling, in varying scalar forms (label, kwargs)."""
    kw, labels = {'failures': 'ignore'}, []
    nm, kw['max_iter'] = int_form(r, 1)
    labels.append('max_iter=' + nm)
    if r.random() < 0.5:
        nm, kw['min_iter'] = int_form(r, r.choice([0, 1]))
        labels.append('min_iter=' + nm)
    if r.random() < 0.5:
        nm, kw['offset'] = int_form(r, 0)
        labels.append('offset=' + nm)
    k = r.random()
    if k < 0.25:
        kw['tol'] = np.float64(1e-10)
        labels.append('tol=np.float64')
    elif k < 0.4:
        kw['tol'] = np.float32(1e-10)
        labels.append('tol=np.float32')
    elif k < 0.5:
        kw['tol'] = 1e-10
    if r.random() < 0.25:
        kw['catch_first_error'] = np.bool_(True)
        labels.append('catch_first_error=np.bool_')
    return labels, kw


def symbol_collection(r, symbols):
    """(label, collection): the symbols as a list or in another form the tools accept on HEAD — every one is iterated
    exactly once by symbols_to_graph, so one-shot iterables are among them."""
    import collections, itertools

    class SymbolList(list):
        pass
    form = r.choice(['list', 'list', 'tuple', 'generator', 'iter', 'filter', 'map', 'dict-values', 'deque',
                     'list-subclass', 'chain'])
    sy = list(symbols)
    if form == 'tuple':
        return form, tuple(sy)
    if form == 'generator':
        return form, (s for s in sy)
    if form == 'iter':
        return form, iter(sy)
    if form == 'filter':
        return form, filter(lambda s: True, sy)
    if form == 'map':
        return form, map(lambda s: s, sy)
    if form == 'dict-values':
        return form, {i: s for i, s in enumerate(sy)}.values()
    if form == 'deque':
        return form, collections.deque(sy)
    if form == 'list-subclass':
        return form, SymbolList(sy)
    if form == 'chain':
        return form, itertools.chain(sy[:1], sy[1:])
    return form, sy


# ---------------------------------------------------------------------------------------------------------------
# parallel observation of the real code (thorough tier)

_OBSERVE = None


def _observe_chunk(chunk):
    import framework
    rep = framework.Report()
    impls = [_OBSERVE(c, rep) for c in chunk]
    return rep, impls


def observe_all(observe, cases, rep, workers=1):
    """[observe(c, rep) for c in cases], spread over forked workers when there are many cases (deterministic:
    every case carries its own data seed, results are merged in case order)."""
    global _OBSERVE
    if workers <= 1 or len(cases) < 4000:
        return [observe(c, rep) for c in cases]
    import multiprocessing as mp
    _OBSERVE = observe
    size = max(200, len(cases) // (workers * 4) + 1)
    chunks = [cases[i:i + size] for i in range(0, len(cases), size)]
    with mp.get_context('fork').Pool(workers) as pool:
        parts = pool.map(_observe_chunk, chunks)
    impls = []
    for r, im in parts:
        rep.merge(r)
        impls += im
    return impls
