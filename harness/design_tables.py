#!/venv/bin/python
"""Regenerate the machine-written tables of DESIGN.md (between <!-- BEGIN:x --> / <!-- END:x --> markers):
seeded changes and which check catches them; theorem inventory; known findings."""
import ast, json, os, re
V = '/verif'
def block(name, text, doc):
    b, e = f'<!-- BEGIN:{name} -->', f'<!-- END:{name} -->'
    if b not in doc:
        return doc + f'\n{b}\n{text}\n{e}\n'
    return re.sub(re.escape(b) + r'.*?' + re.escape(e), lambda m: f'{b}\n{text}\n{e}', doc, flags=re.S)
doc = open(f'{V}/DESIGN.md').read()
# seeds
res = json.load(open(f'{V}/seeded/RESULTS.json')) if os.path.exists(f'{V}/seeded/RESULTS.json') else {}
rows = ['| seed | property | change (from its meta.json) | needs to manifest | demo fails with / passes without | caught by `./check` |', '|---|---|---|---|---|---|']
for s in sorted(res):
    m = json.load(open(f'{V}/seeded/{s}/meta.json'))
    r = res[s]
    caught = ('yes' + (' (no-failing-input-found)' if r.get('no_failing_input_found') else '')) if r['check_detects'] else '**NO**'
    rows.append(f"| {s} | {r['property']} | {str(m.get('summary',''))[:160].replace('|','/')} | {str(m.get('needs_to_manifest',''))[:120].replace('|','/')} | "
                f"{r['demo_exit_with_patch']} / {r['demo_exit_on_head']} | {caught} |")
doc = block('seeds', '\n'.join(rows), doc)
# theorems
rows = ['| property | Lean module | theorems audited | technique |', '|---|---|---|---|']
for f in sorted(os.listdir(f'{V}/harness/props')):
    if not re.match(r'c\d+\.py$', f):
        continue
    src = open(f'{V}/harness/props/{f}').read()
    ev = f'{V}/evidence/{f[:-3].upper()}.json'
    n = '?'
    if os.path.exists(ev):
        c = json.load(open(ev))['coverage']
        n = f"{c.get('discharged')}/{c.get('obligations')}"
    meta = None
    for node in ast.parse(src).body:
        if isinstance(node, ast.Assign) and any(getattr(t, 'id', None) == 'META' for t in node.targets):
            meta = ast.literal_eval(node.value)
    rows.append(f"| {f[:-3].upper()} | Proofs.{f[:-3].upper()} | {n} | {(meta or {}).get('technique','')} |")
doc = block('theorems', '\n'.join(rows), doc)
# findings
kf = json.load(open(f'{V}/known_findings.json'))['findings']
rows = ['| property | key | status | what |', '|---|---|---|---|']
for k in kf:
    rows.append(f"| {k['property']} | `{k['key']}` | {k['status']} | {k['what'][:220].replace('|','/')} |")
doc = block('findings', '\n'.join(rows), doc)
# model / proof inventory
def first_doc(path):
    t = open(path).read()
    m = re.search(r'/-[-!]?\s*(.*?)-/', t, flags=re.S)
    if not m:
        return ''
    line = ' '.join(m.group(1).split())
    return line[:150].replace('|', '/')
rows = ['| file | lines | theorems / lemmas | what it holds (first words of its header) |', '|---|---|---|---|']
tot = {'model': 0, 'proof': 0, 'driver': 0}
for d, kind in (('FsicModel', 'model'), ('Proofs', 'proof'), ('Proofs/Lemmas', 'proof'), ('Driver', 'driver')):
    for f in sorted(os.listdir(f'{V}/lean/{d}')):
        if not f.endswith('.lean'):
            continue
        path = f'{V}/lean/{d}/{f}'
        t = open(path).read()
        n = t.count('\n')
        tot[kind] += n
        th = len(re.findall(r'^(?:theorem|lemma) ', t, flags=re.M))
        if kind != 'driver':
            rows.append(f'| {d}/{f} | {n} | {th} | {first_doc(path)} |')
rows.append(f"| **total** | models {tot['model']}, proofs {tot['proof']}, drivers {tot['driver']} | | |")
if '<!-- BEGIN:inventory -->' not in doc:
    doc += '\n### 11.9 Model and proof inventory (generated)\n\n<!-- BEGIN:inventory -->\n<!-- END:inventory -->\n'
doc = block('inventory', '\n'.join(rows), doc)
open(f'{V}/DESIGN.md', 'w').write(doc)
print('DESIGN.md tables regenerated')
