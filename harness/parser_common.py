"""Shared by the symbol-level parser checks (C03, C15): JSON encoding of the real fsic objects for the Lean driver
(`lean/Driver/Parser.lean`), statement acquisition from the real code, program mutators, converters."""
import json

from fsic import parser as P
import gen_scripts as gs

OWN_ERRORS = ('SymbolError', 'ParserError', 'TypeError', 'AssertionError')


def exc_name(e):
    return type(e).__name__


def idx_json(x):
    if x is None:
        return None
    if isinstance(x, bool):
        return {'s': repr(x)}
    if isinstance(x, int):
        return int(x)
    return {'s': str(x)}


def term_json(t):
    return {'name': t.name, 'type': P.Type(t.type).name, 'index': idx_json(t.index_)}


def sym_json(s):
    return {'name': s.name, 'type': P.Type(s.type).name, 'lags': idx_json(s.lags), 'leads': idx_json(s.leads),
            'equation': s.equation, 'code': s.code}


def syms_json(symbols):
    return [sym_json(s) for s in symbols]


def line(kind, payload):
    return kind + '\t' + json.dumps(payload)


def impl(fn, *a, **kw):
    """Run real code; canonical outcome {'ok': value} | {'err': class name}."""
    try:
        return {'ok': fn(*a, **kw)}
    except Exception as e:  # noqa: BLE001
        return {'err': exc_name(e)}


def parse_model(text):
    """`fsic.parse_model` without its syntax check: the check `exec`s every generated line (a statement such as
    `Y = np.sqrt(-2)` or `Y = 1 / 0` then fails at *parse* time — the C13 finding), which is not what C03/C15 are about;
    the symbol merge that follows is the same code either way."""
    return P.parse_model(text, check_syntax=False)


def is_verbatim_statement(st):
    return st.startswith('`') and st.endswith('`')


def statement_case(statement):
    """What the real code produces for one statement: terms (None for a verbatim statement), its symbols (or the
    exception class) and the `equation`/`code` strings it attached (taken from the symbols themselves)."""
    out = {'statement': statement}
    res = impl(P.parse_equation, statement)
    out['impl'] = {'ok': syms_json(res['ok'])} if 'ok' in res else res
    eq = code = '?'
    if 'ok' in res:
        for s in res['ok']:
            if s.equation is not None and s.code is not None:
                eq, code = s.equation, s.code
                break
    out['equation'], out['code'] = eq, code
    out['kind'] = 'verb' if is_verbatim_statement(statement) else 'eqn'
    if out['kind'] == 'verb':
        out['terms'] = None
    else:
        t = impl(P.parse_equation_terms, statement)
        out['terms'] = [term_json(x) for x in t['ok']] if 'ok' in t else None
        if 'err' in t:
            out['terms_err'] = t['err']
    return out


def stmt_payload(sc):
    """Model-side statement (`Stmt.eqn` / `Stmt.verb`)."""
    if sc['terms'] is None:
        return {'equation': sc['equation'], 'code': sc['code']}
    return {'terms': sc['terms'], 'equation': sc['equation'], 'code': sc['code']}


# ---- converters used on both sides (Lean: Drv.Parser.converterOf) ------------------------------------------------

def conv_code(s):
    return s.code


def conv_wrap(s):
    return 'if True:\n\n    ' + s.code.replace('\n', '\n    ') + '\n  \n# ' + (s.name if s.name is not None else '<verbatim>')


def conv_mark(s):
    """A wrapping converter that stays valid Python for an empty / whitespace-only `code`."""
    return '# begin ' + (s.name if s.name is not None else '<verbatim>') + '\n' + s.code + '\n# end'


def conv_empty(s):
    return ''


CONVERTERS = {'default': None, 'code': conv_code, 'wrap': conv_wrap, 'mark': conv_mark, 'empty': conv_empty}


# ---- program mutators (AST level) -------------------------------------------------------------------------------

def replace_term(e, target, new):
    """Replace the first occurrence (script order) of Term `target` in expression `e` by `new`."""
    done = [False]

    def go(x):
        if done[0]:
            return x
        if isinstance(x, gs.Term):
            if x == target:
                done[0] = True
                return new
            return x
        if isinstance(x, gs.Un):
            return gs.Un(x.op, go(x.e))
        if isinstance(x, gs.Bin):
            l = go(x.l)
            return gs.Bin(x.op, l, go(x.r))
        if isinstance(x, gs.Call):
            return gs.Call(x.fname, tuple(go(a) for a in x.args))
        if isinstance(x, gs.IfElse):
            a = go(x.a)
            c = go(x.c)
            return gs.IfElse(a, c, go(x.b))
        return x
    return go(e)


def equations(prog):
    return [s for s in prog.statements if isinstance(s, gs.Equation)]


def canon(e):
    """The equation/expression with `X` and `X[0]` identified (they are the same term)."""
    if isinstance(e, gs.Equation):
        return gs.Equation(canon(e.lhs), canon(e.rhs))
    if isinstance(e, gs.Term):
        return gs.Term(e.kind, e.name, 0 if e.index is None else e.index)
    if isinstance(e, gs.Un):
        return gs.Un(e.op, canon(e.e))
    if isinstance(e, gs.Bin):
        return gs.Bin(e.op, canon(e.l), canon(e.r))
    if isinstance(e, gs.Call):
        return gs.Call(e.fname, tuple(canon(a) for a in e.args))
    if isinstance(e, gs.IfElse):
        return gs.IfElse(canon(e.a), canon(e.c), canon(e.b))
    return e


def double_defined(prog):
    """Names assigned by two *different* equations."""
    seen = {}
    bad = set()
    for st in equations(prog):
        if st.lhs.kind != 'var':
            continue
        c = canon(st)
        if st.lhs.name in seen and seen[st.lhs.name] != c:
            bad.add(st.lhs.name)
        seen.setdefault(st.lhs.name, c)
    return bad


def payload_ok(scs):
    """Every statement can be handed to the model: equations with their real terms, verbatim statements with the
    real symbol's strings."""
    return all((sc['kind'] == 'verb' and 'ok' in sc['impl']) or (sc['kind'] == 'eqn' and sc['terms'] is not None)
               for sc in scs)


def all_offsets(prog):
    return [t.offset for st in equations(prog) for t in [st.lhs] + gs.terms_of(st.rhs)]
