"""Oracle for C13 (and helpers shared with C14), written from the property text only and run against the REAL
`parse_model` / `build_model` of the fsic under test.  Nothing here looks at the Lean model."""
import builtins, contextlib, keyword, linecache, os, re, shutil, signal, sys, tempfile, traceback, zlib

import fsic
from fsic import parser as P
from fsic.exceptions import ParserError, SymbolError

import side_effects as SE

OWN = (ParserError, SymbolError, IndentationError)


class _Timeout(BaseException):
    pass


def _on_alarm(signum, frame):
    raise _Timeout()


class CanaryObject:
    """Stands in for `self` in fsic.parser's globals: any use means a model statement is being executed."""

    def __init__(self, hits):
        object.__setattr__(self, '_hits', hits)

    def __getattr__(self, name):
        self._hits.append('self.' + name)
        raise NameError('canary')   # looks like the undefined name it replaces, so the outcome class is unchanged

    def __setattr__(self, name, value):
        self._hits.append('self.' + name + '=')
        raise NameError('canary')

    def __getitem__(self, k):
        self._hits.append('self[...]')
        raise NameError('canary')

    def __setitem__(self, k, v):
        self._hits.append('self[...]=')
        raise NameError('canary')


@contextlib.contextmanager
def canary(hits):
    """Install the sentinels: `CANARY()` and `self` in fsic.parser's globals, patched print/open."""
    def trip(*a, **k):
        hits.append('CANARY')
        return 1.0

    def fake_print(*a, **k):
        hits.append('print')

    real_open = builtins.open

    def fake_open(*a, **k):
        hits.append('open')
        raise NameError('canary')

    saved_print = builtins.print
    P.CANARY = trip
    P.self = CanaryObject(hits)
    builtins.print = fake_print
    builtins.open = fake_open
    try:
        yield
    finally:
        builtins.print = saved_print
        builtins.open = real_open
        for n in ('CANARY', 'self'):
            if hasattr(P, n):
                delattr(P, n)


# ---- side effects -------------------------------------------------------------------------------------------------

_WARM = False
_SANDBOX = None
WARM_UP = ['Y = X', '', 'Y = (X +\n Z[-1])  # c\n```\npass\n```', 'Y = {0}', ')', '  Y = X', 'Y = X +', 'Y = {a} + <e>',
           'Y = 1 is 1', 'Y = X\nY = Z', 'Y = é', 'Y = "\u00e9"']


def fsic_modules():
    return [m for n, m in sorted(sys.modules.items()) if (n == 'fsic' or n.startswith('fsic.')) and m is not None]


def warm_up():
    """Principled rule for lazily created state: everything the library creates on its FIRST use (lazy imports,
    regex caches, line cache of its own sources) is created here, once per process; from then on the snapshots must
    not change."""
    global _WARM
    if _WARM:
        return
    _WARM = True
    import warnings
    with warnings.catch_warnings():
        warnings.simplefilter('ignore')
        for text in WARM_UP:
            for cs in (True, False):
                try:
                    syms = P.parse_model(text, check_syntax=cs)
                    P.build_model_definition(syms)
                    P.build_model_definition(syms, with_type_hints=False)
                    P.build_model(syms)(range(3))
                except Exception as e:  # noqa: BLE001
                    [f.line for f in traceback.extract_tb(e.__traceback__)]
    for m in fsic_modules():
        f = getattr(m, '__file__', None)
        if f:
            linecache.getlines(f)
    linecache.getlines(__file__)
    full_snapshot()   # the snapshot itself touches lazily imported parts of numpy.random etc.


@contextlib.contextmanager
def sandbox():
    """A private, empty working directory and temp directory: any file the parser or builder leaves behind shows."""
    global _SANDBOX
    old_cwd, old_tmp, old_env = os.getcwd(), tempfile.tempdir, os.environ.get('TMPDIR')
    d = tempfile.mkdtemp(prefix='fsic-sbx-')
    os.mkdir(os.path.join(d, 'tmp'))
    os.chdir(d)
    tempfile.tempdir = os.path.join(d, 'tmp')
    os.environ['TMPDIR'] = tempfile.tempdir
    _SANDBOX = d
    try:
        yield d
    finally:
        _SANDBOX = None
        os.chdir(old_cwd)
        tempfile.tempdir = old_tmp
        if old_env is None:
            os.environ.pop('TMPDIR', None)
        else:
            os.environ['TMPDIR'] = old_env
        shutil.rmtree(d, ignore_errors=True)


def full_snapshot():
    return SE.snapshot(fsic_modules(), _SANDBOX)


def watched(call, violate, what, full):
    """Run `call()` between two snapshots of the process-global state; every key that differs is a violation
    `side-effect:<key>`.  full=False: the cheap subset (the batch-level full comparison still runs)."""
    if full:
        before = full_snapshot()
    else:
        before = SE.quick_snapshot(P)
    try:
        return call()
    finally:
        if full:
            after = full_snapshot()
            for k in SE.diff(before, after):
                violate('side-effect:' + k, f'{what} changed {k}: {SE.describe(k, before, after)}')
        else:
            after = SE.quick_snapshot(P)
            if after != before:
                for k, a, b in zip(SE.QUICK_KEYS, before, after):
                    if a != b:
                        violate('side-effect:' + k, f'{what} changed {k}: {str(a)[:60]} -> {str(b)[:60]}')


def logical_statements(script):
    """The script syntax as documented: `#` starts a comment; a statement ends at the end of a line on which all
    parentheses are closed; a line starting with three backticks opens a verbatim block that the next such line
    closes.  Returns (statements as (kind, text), fence_left_open, fenced_blocks_with_unbalanced_parentheses)."""
    out, buf, depth, fence, odd = [], [], 0, False, False
    for raw in script.splitlines():
        line = raw.split('#', 1)[0]
        if line.startswith('```') and (fence or not buf):
            buf.append(line)
            if fence:
                body = '\n'.join(buf[1:-1])
                if body.count('(') != body.count(')'):
                    odd = True
                # a closing fence line with text after the backticks is not a pure verbatim block: the whole
                # buffer is then an ordinary (and odd) statement
                out.append(('verbatim' if not line.strip().strip('`') else 'equation', '\n'.join(buf)))
                buf, fence = [], False
            else:
                fence = True
            continue
        buf.append(line)
        if fence:
            continue
        depth += line.count('(') - line.count(')')
        if depth <= 0:
            text = '\n'.join(buf)
            if text.strip():
                out.append(('equation', text))
            buf, depth = [], 0
    return out, fence, odd


_SIMPLE_LHS = re.compile(r'\s*\(?\s*([A-Za-z_][A-Za-z_0-9]*)(\[[^\]\s]*\])?\s*\Z')


def lhs_name(stmt):
    """Name assigned by a statement whose left-hand side is one plain variable (optionally indexed), else None."""
    if '=' not in stmt:
        return None
    m = _SIMPLE_LHS.match(stmt.split('=', 1)[0])
    if not m or keyword.iskeyword(m.group(1)):
        return None
    return m.group(1)


# a backticked fragment or an index bracket that contains the statement's `=`
_STRADDLE = re.compile(r'`[^`\n]*=[^`\n]*`|\[[^\]\n]*=[^\]\n]*\]')


def classify_internal(e, script=''):
    """Key for an exception that is not one of the parser's own errors.  The keys of the known defects are
    predicates over the exception class and the INPUT (not over fsic's function names or source lines), so that a
    refactoring of the parser does not turn a known finding into a new one."""
    if isinstance(e, (RecursionError, MemoryError)):
        return 'internal:' + type(e).__name__     # a very long / deeply nested statement exhausts the compiler
    tb = traceback.extract_tb(e.__traceback__)
    if any(f.filename == '<string>' for f in tb):
        return 'exec-at-parse-raises'
    inner = [f for f in tb if f.filename.endswith('parser.py')]
    fn = inner[-1].name if inner else '?'
    if inner and (inner[-1].line or '').lstrip().startswith('raise'):
        # raised on purpose by the parser with a foreign class: never one of the known defects (those are
        # exceptions escaping from str.format / tuple unpacking)
        return f'internal-error:{type(e).__name__}@{fn}'
    if isinstance(e, (ValueError, IndexError, KeyError, AttributeError, TypeError)) and ('{' in script or '}' in script):
        return 'stray-brace-format-error'
    if isinstance(e, (IndexError, ValueError, KeyError)) and _STRADDLE.search(script):
        return 'match-straddles-equals-format-error'
    if isinstance(e, ValueError):
        stmts, _, _ = logical_statements(script)
        if any('=' not in text for kind, text in stmts if kind == 'equation'):
            return 'no-equals-unpack-error'
    return f'internal-error:{type(e).__name__}@{fn}'


def _rejection_key(script):
    """A well-formed script was rejected: if it is accepted without the syntax check and every generated statement
    compiles without a SyntaxWarning, the rejection comes from *running* the statement in the syntax check."""
    import warnings
    try:
        symbols = P.parse_model(script, check_syntax=False)
        with warnings.catch_warnings():
            warnings.simplefilter('error')
            for sym in symbols:
                if sym.code is not None:
                    compile(sym.code, '<check>', 'exec')
    except Exception:  # noqa: BLE001
        return 'grammar-script-rejected'
    return 'exec-at-parse-rejects-valid'


# statements Python allows at module level only (the syntax check compiles a verbatim block on its own, the built
# class puts it inside a method)
_MODULE_LEVEL_ONLY = re.compile(r'from\s+__future__\s+import|import\s*\*')


# statements whose validity depends on the function they end up in (the parameters of `_evaluate`), and nesting
# that is within the compiler's limits on its own but not two levels deeper (class + method)
_METHOD_CONTEXT = re.compile(r'\b(global|nonlocal)\b')


def _deep(script):
    return any(len(ln) - len(ln.lstrip(' ')) >= 64 for ln in script.split('\n'))


def check(script, violate, dist=None, expect_accept=False, timeout=20, full=False):
    """Run the property on one input.  `violate(key, what)` is called for every breach.  Returns the outcome tag.
    full=True: full process-state snapshots around every call (otherwise the cheap subset)."""
    warm_up()
    hits = []
    names_before = set(vars(P))
    signal.signal(signal.SIGALRM, _on_alarm)
    signal.setitimer(signal.ITIMER_REAL, timeout)
    symbols = None
    tag = None
    try:
        with canary(hits):
            try:
                symbols = watched(lambda: P.parse_model(script), violate, 'parse_model(check_syntax=True)', full)
                tag = 'accepted'
            except OWN as e:
                tag = 'own:' + type(e).__name__
            except _Timeout:
                raise
            except Exception as e:  # noqa: BLE001
                key = classify_internal(e, script)
                if expect_accept and not key.startswith('exec-at-parse'):
                    key = 'grammar-script-rejected'   # a well-formed script has no stray braces / missing `=`
                tag = 'internal:' + type(e).__name__
                violate(key, f'parse_model raised {type(e).__name__} (not one of its own errors): {str(e)[:120]}')
    except _Timeout:
        signal.setitimer(signal.ITIMER_REAL, 0)
        violate('non-termination', f'parse_model did not return within {timeout}s')
        return 'timeout'
    finally:
        signal.setitimer(signal.ITIMER_REAL, 0)
    if hits:
        violate('exec-at-parse', f'parse_model executed model statements (canary tripped: {sorted(set(hits))[:4]})')
    leaked = set(vars(P)) - names_before
    if leaked:
        for n in leaked:
            delattr(P, n)
        violate('exec-at-parse', f'parse_model left new names in fsic.parser: {sorted(leaked)[:4]}')
    if expect_accept and tag != 'accepted' and not tag.startswith('internal'):
        violate(_rejection_key(script), f'a well-formed script was rejected with {tag}')
    if full or zlib.crc32(script.encode('utf-8', 'replace')) % 8 == 0:
        # the same without the syntax check: same side-effect discipline, and never fewer scripts accepted
        try:
            with canary(hits):
                unchecked = watched(lambda: P.parse_model(script, check_syntax=False), violate,
                                    'parse_model(check_syntax=False)', full)
        except Exception as e:  # noqa: BLE001
            unchecked = None
            if symbols is not None:
                violate('unchecked-parse-rejects', f'accepted with the syntax check but {type(e).__name__} without it')
        if hits:
            violate('exec-at-parse', 'parse_model(check_syntax=False) executed model statements')
    if symbols is None:
        return tag
    # ---- accepted with syntax checking on: build_model succeeds and the class can be instantiated ----------------
    hits2 = []
    try:
        with canary(hits2):
            Model = watched(lambda: P.build_model(symbols), violate, 'build_model', full)
            n = int(getattr(Model, 'LAGS', 0)) + int(getattr(Model, 'LEADS', 0)) + 3
            Model(range(min(n, 5000)))
    except Exception as e:  # noqa: BLE001
        key = 'build-fails:' + type(e).__name__
        if _MODULE_LEVEL_ONLY.search(script) and type(e).__name__ == 'BuildError':
            key = 'build-fails:module-level-only-statement'
        elif type(e).__name__ == 'BuildError' and (_METHOD_CONTEXT.search(script) or _deep(script)):
            key = 'build-fails:method-context'
        violate(key, f'parse_model accepted the script but build_model / instantiation raised {type(e).__name__}: '
                f'{str(e)[:120]}')
        return 'accepted-build-fails'
    if hits2:
        violate('exec-at-build', f'build_model executed model statements (canary: {sorted(set(hits2))[:4]})')
    # ---- no non-blank, non-comment statement is silently discarded -----------------------------------------------
    converted = []
    try:
        watched(lambda: P.build_model_definition(symbols, converter=lambda sym: (converted.append(sym), 'pass')[1]),
                violate, 'build_model_definition', full)
    except Exception as e:  # noqa: BLE001
        violate('build-fails:' + type(e).__name__, 'build_model_definition with a counting converter raised')
        return 'accepted-build-fails'
    stmts, fence_open, odd_fence = logical_statements(script)
    if fence_open:
        violate('unterminated-fence-swallows', 'an opening ``` fence is never closed, the rest of the script is '
                'dropped and parse_model returns without error')
    endo = {x.name for x in converted if x.name is not None}
    nverb_expected = sum(1 for k, _ in stmts if k == 'verbatim')
    names, nonsimple = [], 0
    for kind, text in stmts:
        if kind != 'equation':
            continue
        n = lhs_name(text)
        if n is None:
            nonsimple += 1
        elif n not in names:
            names.append(n)
    explained = fence_open
    for n in names:
        if n not in endo:
            if odd_fence:
                violate('fence-parens-counted', f'statement assigning {n!r} contributes no equation: an unbalanced '
                        'parenthesis inside a verbatim block makes the block swallow the statements after it')
                explained = True
            elif any(re.search(r'(?<![A-Za-z_0-9.])' + re.escape(n) + r'\s*\(', t) for k, t in stmts if k == 'equation'):
                violate('dropped:lhs-name-called-as-function',
                        f'statement assigning {n!r} contributes no equation (the name is also called as a function)')
                explained = True
            else:
                violate('dropped:unexplained', f'statement assigning {n!r} contributes no equation')
                explained = True
    expected = len(names) + nonsimple + nverb_expected
    if len(converted) != expected and not explained:
        if nonsimple:
            violate('miscount:lhs-not-a-single-variable',
                    f'{expected} statements but {len(converted)} equations/blocks in the built model '
                    '(a left-hand side that is not one plain variable)')
        elif odd_fence:
            violate('fence-parens-counted', 'parentheses inside a verbatim block take part in statement assembly')
        else:
            violate('miscount:unexplained', f'{expected} statements but {len(converted)} equations/blocks in the built model')
    if dist is not None:
        dist['accepted:equations=%d' % min(len(converted), 5)] += 1
    return 'accepted'
