"""Oracle for C13 (and helpers shared with C14), written from the property text only and run against the REAL
`parse_model` / `build_model` of the fsic under test.  Nothing here looks at the Lean model."""
import builtins, contextlib, keyword, re, signal, traceback

import fsic
from fsic import parser as P
from fsic.exceptions import ParserError, SymbolError

OWN = (ParserError, SymbolError, IndentationError)


class _Timeout(BaseException):
    pass


def _on_alarm(signum, frame):
    raise _Timeout()


class CanaryObject:
    """Stands in for `self` in fsic.parser's globals: any use means a model statement is being executed."""

    def __init__(self, hits):
        object.__setattr__(self, '_hits', hits)

    def __getattr__(self, name):
        self._hits.append('self.' + name)
        raise NameError('canary')   # looks like the undefined name it replaces, so the outcome class is unchanged

    def __setattr__(self, name, value):
        self._hits.append('self.' + name + '=')
        raise NameError('canary')

    def __getitem__(self, k):
        self._hits.append('self[...]')
        raise NameError('canary')

    def __setitem__(self, k, v):
        self._hits.append('self[...]=')
        raise NameError('canary')


@contextlib.contextmanager
def canary(hits):
    """Install the sentinels: `CANARY()` and `self` in fsic.parser's globals, patched print/open."""
    def trip(*a, **k):
        hits.append('CANARY')
        return 1.0

    def fake_print(*a, **k):
        hits.append('print')

    real_open = builtins.open

    def fake_open(*a, **k):
        hits.append('open')
        raise NameError('canary')

    saved_print = builtins.print
    P.CANARY = trip
    P.self = CanaryObject(hits)
    builtins.print = fake_print
    builtins.open = fake_open
    try:
        yield
    finally:
        builtins.print = saved_print
        builtins.open = real_open
        for n in ('CANARY', 'self'):
            if hasattr(P, n):
                delattr(P, n)


def logical_statements(script):
    """The script syntax as documented: `#` starts a comment; a statement ends at the end of a line on which all
    parentheses are closed; a line starting with three backticks opens a verbatim block that the next such line
    closes.  Returns (statements as (kind, text), fence_left_open, fenced_blocks_with_unbalanced_parentheses)."""
    out, buf, depth, fence, odd = [], [], 0, False, False
    for raw in script.splitlines():
        line = raw.split('#', 1)[0]
        if line.startswith('```') and (fence or not buf):
            buf.append(line)
            if fence:
                body = '\n'.join(buf[1:-1])
                if body.count('(') != body.count(')'):
                    odd = True
                # a closing fence line with text after the backticks is not a pure verbatim block: the whole
                # buffer is then an ordinary (and odd) statement
                out.append(('verbatim' if not line.strip().strip('`') else 'equation', '\n'.join(buf)))
                buf, fence = [], False
            else:
                fence = True
            continue
        buf.append(line)
        if fence:
            continue
        depth += line.count('(') - line.count(')')
        if depth <= 0:
            text = '\n'.join(buf)
            if text.strip():
                out.append(('equation', text))
            buf, depth = [], 0
    return out, fence, odd


_SIMPLE_LHS = re.compile(r'\s*\(?\s*([A-Za-z_][A-Za-z_0-9]*)(\[[^\]\s]*\])?\s*\Z')


def lhs_name(stmt):
    """Name assigned by a statement whose left-hand side is one plain variable (optionally indexed), else None."""
    if '=' not in stmt:
        return None
    m = _SIMPLE_LHS.match(stmt.split('=', 1)[0])
    if not m or keyword.iskeyword(m.group(1)):
        return None
    return m.group(1)


# a backticked fragment or an index bracket that contains the statement's `=`
_STRADDLE = re.compile(r'`[^`\n]*=[^`\n]*`|\[[^\]\n]*=[^\]\n]*\]')


def classify_internal(e, script=''):
    """Key for an exception that is not one of the parser's own errors.  The keys of the known defects are
    predicates over the exception class and the INPUT (not over fsic's function names or source lines), so that a
    refactoring of the parser does not turn a known finding into a new one."""
    tb = traceback.extract_tb(e.__traceback__)
    if any(f.filename == '<string>' for f in tb):
        return 'exec-at-parse-raises'
    inner = [f for f in tb if f.filename.endswith('parser.py')]
    fn = inner[-1].name if inner else '?'
    if inner and (inner[-1].line or '').lstrip().startswith('raise'):
        # raised on purpose by the parser with a foreign class: never one of the known defects (those are
        # exceptions escaping from str.format / tuple unpacking)
        return f'internal-error:{type(e).__name__}@{fn}'
    if isinstance(e, (ValueError, IndexError, KeyError, AttributeError, TypeError)) and ('{' in script or '}' in script):
        return 'stray-brace-format-error'
    if isinstance(e, (IndexError, ValueError, KeyError)) and _STRADDLE.search(script):
        return 'match-straddles-equals-format-error'
    if isinstance(e, ValueError):
        stmts, _, _ = logical_statements(script)
        if any('=' not in text for kind, text in stmts if kind == 'equation'):
            return 'no-equals-unpack-error'
    return f'internal-error:{type(e).__name__}@{fn}'


def _rejection_key(script):
    """A well-formed script was rejected: if it is accepted without the syntax check and every generated statement
    compiles without a SyntaxWarning, the rejection comes from *running* the statement in the syntax check."""
    import warnings
    try:
        symbols = P.parse_model(script, check_syntax=False)
        with warnings.catch_warnings():
            warnings.simplefilter('error')
            for sym in symbols:
                if sym.code is not None:
                    compile(sym.code, '<check>', 'exec')
    except Exception:  # noqa: BLE001
        return 'grammar-script-rejected'
    return 'exec-at-parse-rejects-valid'


def check(script, violate, dist=None, expect_accept=False, timeout=20):
    """Run the property on one input.  `violate(key, what)` is called for every breach.  Returns the outcome tag."""
    hits = []
    names_before = set(vars(P))
    signal.signal(signal.SIGALRM, _on_alarm)
    signal.setitimer(signal.ITIMER_REAL, timeout)
    symbols = None
    tag = None
    try:
        with canary(hits):
            try:
                symbols = P.parse_model(script)
                tag = 'accepted'
            except OWN as e:
                tag = 'own:' + type(e).__name__
            except _Timeout:
                raise
            except Exception as e:  # noqa: BLE001
                key = classify_internal(e, script)
                if expect_accept and not key.startswith('exec-at-parse'):
                    key = 'grammar-script-rejected'   # a well-formed script has no stray braces / missing `=`
                tag = 'internal:' + type(e).__name__
                violate(key, f'parse_model raised {type(e).__name__} (not one of its own errors): {str(e)[:120]}')
    except _Timeout:
        signal.setitimer(signal.ITIMER_REAL, 0)
        violate('non-termination', f'parse_model did not return within {timeout}s')
        return 'timeout'
    finally:
        signal.setitimer(signal.ITIMER_REAL, 0)
    if hits:
        violate('exec-at-parse', f'parse_model executed model statements (canary tripped: {sorted(set(hits))[:4]})')
    leaked = set(vars(P)) - names_before
    if leaked:
        for n in leaked:
            delattr(P, n)
        violate('exec-at-parse', f'parse_model left new names in fsic.parser: {sorted(leaked)[:4]}')
    if expect_accept and tag != 'accepted' and not tag.startswith('internal'):
        violate(_rejection_key(script), f'a well-formed script was rejected with {tag}')
    if symbols is None:
        return tag
    # ---- accepted with syntax checking on: build_model succeeds and the class can be instantiated ----------------
    hits2 = []
    try:
        with canary(hits2):
            Model = P.build_model(symbols)
            n = int(getattr(Model, 'LAGS', 0)) + int(getattr(Model, 'LEADS', 0)) + 3
            Model(range(min(n, 5000)))
    except Exception as e:  # noqa: BLE001
        violate('build-fails:' + type(e).__name__,
                f'parse_model accepted the script but build_model / instantiation raised {type(e).__name__}: {str(e)[:120]}')
        return 'accepted-build-fails'
    if hits2:
        violate('exec-at-build', f'build_model executed model statements (canary: {sorted(set(hits2))[:4]})')
    # ---- no non-blank, non-comment statement is silently discarded -----------------------------------------------
    converted = []
    try:
        P.build_model_definition(symbols, converter=lambda sym: (converted.append(sym), 'pass')[1])
    except Exception as e:  # noqa: BLE001
        violate('build-fails:' + type(e).__name__, 'build_model_definition with a counting converter raised')
        return 'accepted-build-fails'
    stmts, fence_open, odd_fence = logical_statements(script)
    if fence_open:
        violate('unterminated-fence-swallows', 'an opening ``` fence is never closed, the rest of the script is '
                'dropped and parse_model returns without error')
    endo = {x.name for x in converted if x.name is not None}
    nverb_expected = sum(1 for k, _ in stmts if k == 'verbatim')
    names, nonsimple = [], 0
    for kind, text in stmts:
        if kind != 'equation':
            continue
        n = lhs_name(text)
        if n is None:
            nonsimple += 1
        elif n not in names:
            names.append(n)
    explained = fence_open
    for n in names:
        if n not in endo:
            if odd_fence:
                violate('fence-parens-counted', f'statement assigning {n!r} contributes no equation: an unbalanced '
                        'parenthesis inside a verbatim block makes the block swallow the statements after it')
                explained = True
            elif any(re.search(r'(?<![A-Za-z_0-9.])' + re.escape(n) + r'\s*\(', t) for k, t in stmts if k == 'equation'):
                violate('dropped:lhs-name-called-as-function',
                        f'statement assigning {n!r} contributes no equation (the name is also called as a function)')
                explained = True
            else:
                violate('dropped:unexplained', f'statement assigning {n!r} contributes no equation')
                explained = True
    expected = len(names) + nonsimple + nverb_expected
    if len(converted) != expected and not explained:
        if nonsimple:
            violate('miscount:lhs-not-a-single-variable',
                    f'{expected} statements but {len(converted)} equations/blocks in the built model '
                    '(a left-hand side that is not one plain variable)')
        elif odd_fence:
            violate('fence-parens-counted', 'parentheses inside a verbatim block take part in statement assembly')
        else:
            violate('miscount:unexplained', f'{expected} statements but {len(converted)} equations/blocks in the built model')
    if dist is not None:
        dist['accepted:equations=%d' % min(len(converted), 5)] += 1
    return 'accepted'
