"""Reflected table for the Tools family (C19): what the INSTALLED pandas does to a missing (`None`) entry of a
column of a DataFrame built from a list of dicts (the call `symbols_to_dataframe` makes), observed on tiny probes.

pandas is outside the Lean model; the model's `Coercion` parameter is instantiated from this table
(`Fsic.Tools.installed`), so every theorem about "the installed coercion" is re-checked against what pandas says now.
"""


def _tag(x):
    """Python value -> tag understood by `Fsic.Tools.cellOfTag` / `presentOfTag`."""
    import numpy as np
    if x is None:
        return 'none'
    if isinstance(x, (bool, np.bool_)):
        return 'other:bool'
    if isinstance(x, str):
        return 'str'
    if isinstance(x, (int, np.integer)):
        return 'int'
    if isinstance(x, (float, np.floating)):
        return 'nan' if x != x else 'float'
    return 'other:' + type(x).__name__


# (probe key, string): '' and strings with leading / trailing / only whitespace (space, tab, newline, CR)
EDGE_STRINGS = [('empty', ''), ('space', ' '), ('trail', 'x '), ('lead', ' x'), ('tabnl', '\tx\n'), ('nl', '\n'),
                ('crlf', 'x = 1 \r\n'), ('both', ' a b ')]


def observe():
    """[(probe name, tag)] in a fixed order."""
    from pandas import DataFrame
    out = []

    def cells(values):
        # same shape as a symbol table: a str column, an always-present int column (`type`), the probed column.
        # (The int column matters: `iterrows()` builds one Series per row and pandas 3 would re-infer a row made of
        # str/None only as a string Series, turning None into NaN a second time.)
        df = DataFrame([{'k': 'r%d' % i, 't': i + 1, 'v': v} for i, v in enumerate(values)])
        # the decoder reads rows with `iterrows()` + `dict(row)`: observe through the same path
        return [dict(row)['v'] for _, row in df.iterrows()]

    out.append(('str_mixed_missing', _tag(cells(['a', None])[1])))
    out.append(('str_mixed_present', _tag(cells(['a', None])[0])))
    out.append(('str_all_missing', _tag(cells([None, None])[0])))
    out.append(('str_full_present', _tag(cells(['a', 'b'])[0])))
    out.append(('int_mixed_missing', _tag(cells([3, None])[1])))
    out.append(('int_mixed_present', _tag(cells([3, None])[0])))
    out.append(('int_all_missing', _tag(cells([None, None])[0])))
    out.append(('int_full_present', _tag(cells([3, 4])[0])))

    # string IDENTITY of present entries with edge whitespace / the empty string ('' is not None!): the model moves
    # strings as opaque values (`encodeStr c _ (some s) = .str s`), so pandas must hand every such string back
    # unchanged -- next to another str (`full`), next to a missing entry (`mixed`) and in a column that holds nothing
    # else (`alone`) -- and must not take '' / a whitespace-only string for a missing entry (`*_mixed_missing`: the
    # None next to it is still coerced exactly like the None next to 'a').
    def same(values, i):
        v = cells(values)[i]
        return 'same' if isinstance(v, str) and str(v) == values[i] else 'altered:' + _tag(v)

    for key, s in EDGE_STRINGS:
        out.append((f'str_{key}_full', same([s, 'b'], 0)))
        out.append((f'str_{key}_mixed', same([s, None], 0)))
        out.append((f'str_{key}_alone', same([s, s], 1)))
    out.append(('str_empty_mixed_missing', _tag(cells(['', None])[1])))
    out.append(('str_space_mixed_missing', _tag(cells([' ', None, '\n'])[1])))
    return out


def ctor_parameters():
    """(positional-or-keyword, keyword-only) parameter names of `BaseModel.__init__`: `from_dataframe` calls
    `cls(index, **{column label: values})`, so a column labelled like a positional parameter clashes with it
    (TypeError) and one labelled like a keyword-only parameter is taken for that parameter."""
    import inspect
    import fsic
    pos, kwo = [], []
    for p in inspect.signature(fsic.BaseModel.__init__).parameters.values():
        if p.kind in (p.POSITIONAL_ONLY, p.POSITIONAL_OR_KEYWORD):
            pos.append(p.name)
        elif p.kind == p.KEYWORD_ONLY:
            kwo.append(p.name)
    return pos, kwo


def export_defaults():
    """Defaults of `fsic.tools.model_to_dataframe(model, *, status, iterations, include_internal)` (what an omitted
    keyword means), as truth values."""
    import inspect
    import fsic
    ps = inspect.signature(fsic.tools.model_to_dataframe).parameters
    out = []
    for k, fallback in (('status', True), ('iterations', True), ('include_internal', False)):
        d = ps[k].default if k in ps and ps[k].default is not inspect.Parameter.empty else fallback
        out.append(bool(d))
    return out


def tables():
    def lstr(s):
        return '"' + s.replace('\\', '\\\\').replace('"', '\\"') + '"'
    obs = observe()
    pos, kwo = ctor_parameters()
    ds, di, dn = ('true' if x else 'false' for x in export_defaults())
    return [
        '/-- `model_to_dataframe`: what an omitted `status=` / `iterations=` / `include_internal=` means. -/',
        f'def exportDefaultStatus : Bool := {ds}',
        f'def exportDefaultIterations : Bool := {di}',
        f'def exportDefaultInternal : Bool := {dn}',
        '/-- `BaseModel.__init__`: names of the positional(-or-keyword) parameters (a `from_dataframe` column labelled',
        '    like one of them makes `cls(index, **columns)` raise TypeError). -/',
        'def modelCtorPositional : List String := [' + ', '.join(lstr(x) for x in pos) + ']',
        '/-- `BaseModel.__init__`: names of the keyword-only parameters (a column labelled like one of them is taken for',
        '    that parameter instead of becoming an initial value). -/',
        'def modelCtorKeywordOnly : List String := [' + ', '.join(lstr(x) for x in kwo) + ']',
    ] + [
        '/-- pandas (installed version) on a column built from a list of dicts, read back through `iterrows`:',
        '    (probe, what the entry comes back as).  `*_missing` = an entry that was `None`; `*_present` = an entry that',
        '    was a str / an int; `mixed` = the column holds both kinds, `all`/`full` = only one kind. -/',
        'def pandasCoercion : List (String × String) := [' + ', '.join(f'({lstr(k)}, {lstr(v)})' for k, v in obs) + ']',
    ]


if __name__ == '__main__':
    print('\n'.join(tables()))
