"""C18, parts (J) and (K).

(J) CONSTRUCTOR ROUTES.  Every route that builds an instance of a class with `AliasMixin` in front -
`Model(span, **kw)`, `Model.from_dataframe(df)`, `Model.from_dataframe(df, **kw)`, the round trip
`Model.from_dataframe(m.to_dataframe(use_aliases=True, ...))`, `copy()` / `copy.copy` / `copy.deepcopy` of an
instance built through aliases, `Linker(submodels, **kw)` with submodels that came from `from_dataframe` - with the
data named by canonical names, direct aliases, aliases of aliases, chains of 3 or a mixture.  Oracle, from the
property text ("every ... constructor keyword ... made through an alias has exactly the effect of the same
operation on the underlying variable"): the object equals the canonical twin (the class WITHOUT the mixin, the same
data under canonical names) on every series (bytes + dtype), span, names, index - and absolutely: the variable a
label resolves to holds exactly that column's values, a variable no label resolves to holds the default.

(K) THE FORM OF THE NAME.  A name is a name whatever str form it comes in: plain `str`, `numpy.str_` (what iterating
a NumPy array of names yields), a member of `class Name(str, enum.Enum)`, an instance of a user subclass of `str`,
interned or built by concatenation.  Every path that takes a name is driven with every form; result and state must
equal those for the plain-`str` spelling and those of the class without the mixin driven through the canonical name
in the same form (so only what the plain class gives for that form is required).

Every case is JSON-native: a name is `{"form": "np.str_", "text": "GDP"}` and is rebuilt by `mk_name`.
"""
import copy as _copy
import enum
import json
import sys
import warnings

import numpy as np

import fsic
from fsic.extensions import AliasMixin

_B = {}


def base():
    """props.c18 (imported lazily: that module imports this one)."""
    if 'm' not in _B:
        import props.c18 as m
        _B['m'] = m
    return _B['m']


# ---------------------------------------------------------------------------------------------------------------
# names in every str form

class StrSub(str):
    """A user-defined subclass of `str` (nothing overridden)."""


_ENUM = {}


def enum_member(text):
    """The member of a `class Name(str, enum.Enum)` whose value is `text`."""
    if text not in _ENUM:
        _ENUM[text] = enum.Enum('Name', [('member', text)], type=str).member
    return _ENUM[text]


FORMS = ['str', 'np.str_', 'np-iter', 'enum', 'subclass', 'concat', 'interned']
EXACT_STR = ('str', 'concat', 'interned')


def mk_name(spec):
    form, text = spec['form'], spec['text']
    if form == 'str':
        return text
    if form == 'np.str_':
        return np.str_(text)
    if form == 'np-iter':
        return next(iter(np.array([text, text + 'x'])))      # what `for name in array_of_names` hands out
    if form == 'enum':
        return enum_member(text)
    if form == 'subclass':
        return StrSub(text)
    if form == 'concat':
        return ''.join([text[:1], text[1:]]) if len(text) > 1 else (text + '_')[:-1]
    if form == 'interned':
        return sys.intern(str(text))
    raise ValueError(form)


def plain_text(x):
    """The characters of a name, as an exact `str` (`str()` of an Enum member is not its value)."""
    return str.__getitem__(x, slice(None)) if isinstance(x, str) else x


def spec(form, text):
    return {'form': form, 'text': text}


# ---------------------------------------------------------------------------------------------------------------
# shared generators

ALIAS_POOL = ['GDP', 'income', 'output', 'expenditure', 'cons', 'mpc', 'wealth', 'tax', 'k1', 'k2', 'gov', 'out']


def route_alias_map(rng, variables, pool=ALIAS_POOL, self_p=0.1, undef_p=0.12):
    """Acyclic map with declared chains of up to 3 aliases, many-to-one, the odd undefined target / self-map.
    Returns (items, depth): depth[name] = number of declared links between the name and its variable."""
    names = iter(rng.sample(pool, len(pool)))
    items, depth = [], {v: 0 for v in variables}
    for v in rng.sample(variables, min(len(variables), rng.choice([1, 2, 2, 3]))):
        prev = v
        for d in range(1, rng.choice([1, 2, 3, 3]) + 1):
            k = next(names, None)
            if k is None:
                break
            items.append([k, prev])
            depth[k] = d
            prev = k
        if rng.random() < 0.35:
            k = next(names, None)
            if k is not None:
                onchain = [x for x, _ in items if depth[x] < 3 and _end(dict(items), x) == v]
                t = rng.choice([v] + onchain)
                items.append([k, t])
                depth[k] = depth[t] + 1
    if rng.random() < undef_p:
        k = next(names, None)
        if k is not None:
            items.append([k, 'undefined_x'])
            depth[k] = 1
    if rng.random() < self_p:
        x = rng.choice(list(variables) + [next(names, 'zz')])
        if x not in dict(items):
            items.append([x, x])
    rng.shuffle(items)
    return items, depth


def _end(m, name):
    seen = set()
    while name in m and m[name] != name and name not in seen:
        seen.add(name)
        name = m[name]
    return name


def spellings(m, variables):
    by = {}
    for sp in list(variables) + [k for k in m if m[k] != k]:
        by.setdefault(_end(m, sp), []).append(sp)
    return by


def pick_pref(rng, m, variables):
    by = spellings(m, variables)
    out = []
    for v in rng.sample(variables, min(len(variables), rng.choice([0, 0, 1, 2]))):
        out.append(rng.choice(by[v]))
    return out


def make_span(sp):
    kind, n = sp['kind'], sp['n']
    if kind == 'int':
        return list(range(2000, 2000 + n))
    if kind == 'str':
        return [f'p{i}' for i in range(n)]
    import pandas as pd
    return pd.period_range('2000Q1', periods=n, freq='Q')


def model_base(which):
    b = base()
    return b.Plain if which == 'plain' else b.built(which)


def pretty(x):
    """A fingerprint (props.c18.fingerprint) in readable form."""
    if isinstance(x, tuple) and x and x[0] in ('arr', 'sc') and isinstance(x[-1], bytes):
        try:
            return f'{np.frombuffer(x[-1], dtype=np.dtype(x[1])).tolist()} ({np.dtype(x[1]).name})'
        except Exception:  # noqa: BLE001
            pass
    if isinstance(x, tuple) and len(x) == 2 and x[0] in ('ok', 'exc'):
        return f'{x[0]}: {pretty(x[1])}'
    return base().short(x)


def nice_diff(sa, st):
    ks = [k for k in sorted(set(sa) | set(st), key=str) if sa.get(k) != st.get(k)]
    return ', '.join(f'{k}: {pretty(sa.get(k))} vs {pretty(st.get(k))}' for k in ks[:3])


def int_series(a):
    return ','.join(str(int(x)) for x in np.asarray(a).tolist())


# ---------------------------------------------------------------------------------------------------------------
# (J) constructor routes

MODEL_ROUTES = ['kwargs', 'from_dataframe', 'from_dataframe', 'from_dataframe+kw', 'from_dataframe+kw', 'roundtrip',
                'roundtrip', 'roundtrip-full', 'copy', 'copy.copy', 'deepcopy']
LINKER_ROUTES = ['linker-kw', 'linker-kw', 'linker-copy', 'linker-deepcopy']
DEPTH_MODES = ['canonical', 'direct', 'alias2', 'chain3', 'mixed', 'mixed']
MODE_DEPTH = {'canonical': 0, 'direct': 1, 'alias2': 2, 'chain3': 3}
SUB_ALIASES = [['out', 'Y'], ['o2', 'out'], ['o3', 'o2'], ['gov', 'G']]


def gen_route_case(rng):
    b = base()
    linker = rng.random() < 0.15
    if linker:
        which = None
        variables = ['Y', 'C', 'G', 'H']
        route = rng.choice(LINKER_ROUTES)
    else:
        which = rng.choice(['plain', 0, 1, 2])
        variables = list(model_base(which).NAMES)
        route = rng.choice(MODEL_ROUTES)
    items, depth = route_alias_map(rng, variables)
    m = dict(items)
    n = rng.choice([3, 4, 5])
    # (a linker compares the spans of its submodels with `!=`: no PeriodIndex there, mixin or not)
    span = {'kind': rng.choice(['int', 'int', 'int', 'str'] + ([] if linker else ['period'])), 'n': n}
    floats = rng.random() < 0.3
    strict = (not linker) and rng.random() < 0.25
    mode = rng.choice(DEPTH_MODES)
    by = spellings(m, variables)

    def label_for(v):
        if mode == 'mixed':
            return rng.choice(by[v])
        want = MODE_DEPTH[mode]
        best = max((depth[s] for s in by[v] if depth[s] <= want), default=0)
        return rng.choice([s for s in by[v] if depth[s] == best])

    def value(allow_scalar):
        if allow_scalar and rng.random() < 0.3:
            return rng.uniform(-9, 9) if floats else rng.randrange(1, 99)
        if floats:
            return [float('nan') if rng.random() < 0.08 else rng.uniform(-9, 9) for _ in range(n)]
        return [rng.randrange(1, 99) for _ in range(n)]
    # which variables are given data: those with aliases first (that is where a route can lose something)
    aliased = [v for v in variables if len(by[v]) > 1]
    others = [v for v in variables if v not in aliased]
    chosen = rng.sample(aliased, rng.randrange(1, len(aliased) + 1)) if aliased else []
    chosen += rng.sample(others, min(len(others), rng.choice([0, 1, 2])))
    rng.shuffle(chosen)
    table = [[label_for(v), value(route in ('kwargs', 'linker-kw', 'linker-copy', 'linker-deepcopy'))] for v in chosen]
    extra = []
    if route == 'from_dataframe+kw' and table:
        k = rng.randrange(1, len(table) + 1) if len(table) > 1 else 1
        extra = [[lab, val if rng.random() < 0.6 else (val[0] if isinstance(val, list) else val)] for lab, val in table[:k]]
        table = table[k:]
    if not strict and rng.random() < 0.12:
        # a label that names nothing (an alias of an undefined name, or an unknown name): ignored alike
        und = [k for k in m if _end(m, k) == 'undefined_x'] + ['nosuch']
        table.append([rng.choice(und), value(False)])
    elif strict and rng.random() < 0.15:
        und = [k for k in m if _end(m, k) == 'undefined_x'] + ['nosuch']
        table.append([rng.choice(und), value(False)])        # rejected alike
    if route in ('kwargs', 'linker-kw') and rng.random() < 0.05 and table:
        table[0][1] = [1] * (n + 1)                           # wrong length: rejected alike
    via = rng.choice(['kwargs', 'from_dataframe']) if route in ('copy', 'copy.copy', 'deepcopy') else None
    if via == 'from_dataframe' or route in ('from_dataframe', 'from_dataframe+kw'):
        table = [[lab, val if isinstance(val, list) else [val] * n] for lab, val in table]
    ops = []
    if span['kind'] != 'period' and not linker:
        ops = b.gen_ops(rng, m, variables, make_span(span), rng.choice([0, 1, 2]), solve=False)
    case = {'part': 'ctor-route', 'route': route, 'via': via, 'linker': linker, 'base': which, 'm': items,
            'pref': pick_pref(rng, m, variables), 'span': span, 'strict': strict, 'mode': mode, 'floats': floats,
            'table': table, 'extra': extra, 'ops': ops,
            'depths': sorted({depth.get(lab, 0) for lab, _ in table + extra})}
    if linker:
        # submodels come from from_dataframe, one of them alias-enabled with alias-labelled columns
        sub_mode = rng.choice(['canonical', 'direct', 'alias2', 'chain3'])
        lab = {'canonical': 'Y', 'direct': 'out', 'alias2': 'o2', 'chain3': 'o3'}[sub_mode]
        case['sub'] = {'Y_label': lab, 'G_label': rng.choice(['G', 'gov']),
                       'Y': [rng.randrange(1, 99) for _ in range(n)], 'G': [rng.randrange(1, 99) for _ in range(n)]}
    return case


def _frame(span, cols):
    """A DataFrame with the given (label, values) columns in order (labels may repeat / be of any str form)."""
    import pandas as pd
    if not cols:
        return pd.DataFrame(index=span)
    data = np.column_stack([np.asarray(v, dtype=float) for _, v in cols])
    df = pd.DataFrame(data, index=span, columns=pd.Index([lab for lab, _ in cols], dtype=object))
    return df


def _int_frame(span, cols, floats):
    import pandas as pd
    if floats or not cols:
        return _frame(span, cols)
    data = np.column_stack([np.asarray(v, dtype=np.int64) for _, v in cols])
    return pd.DataFrame(data, index=span, columns=pd.Index([lab for lab, _ in cols], dtype=object))


def _linker_bases():
    b = base()
    if 'linker' not in _B:
        _B['linker'] = b.opts_base('linker', ['Y', 'C'], ['G', 'H'])
        Sub = b.submodel_class()
        _B['sub'] = Sub
        _B['suba'] = type('SubAliased', (AliasMixin, Sub), {'ALIASES': dict(map(tuple, SUB_ALIASES))})
    return _B['linker'], _B['sub'], _B['suba']


def _build(route, via, cls, span, strict, table, extra, floats, export_kw, use_aliases, sub=None):
    """One instance by the case's route.  Returns (object, first-stage object or None)."""
    kw = {k: v for k, v in table}
    if route == 'kwargs' or (route in ('copy', 'copy.copy', 'deepcopy') and via == 'kwargs'):
        first = cls(span, strict=strict, **kw)
    elif route in ('from_dataframe', 'from_dataframe+kw') or via == 'from_dataframe':
        first = cls.from_dataframe(_int_frame(span, table, floats), strict=strict, **{k: v for k, v in extra})
    elif route in ('roundtrip', 'roundtrip-full'):
        first = cls(span, **kw)
        opts = dict(export_kw)
        if use_aliases:
            opts['use_aliases'] = True
        df = first.to_dataframe(**opts)
        return cls.from_dataframe(df, strict=strict), first
    elif route.startswith('linker'):
        first = cls(sub, **kw)
    else:
        raise ValueError(route)
    if route in ('copy', 'linker-copy'):
        return first.copy(), first
    if route == 'copy.copy':
        return _copy.copy(first), first
    if route in ('deepcopy', 'linker-deepcopy'):
        return _copy.deepcopy(first), first
    return first, None


def _expected(value, n):
    return np.full(n, value, dtype=float) if not isinstance(value, list) else np.asarray(value, dtype=float)


def run_route_case(ctx, rep, case, tcases=None):
    b = base()
    jc = b.jsonable_case(case)
    case = b.unjson_case(case)
    route, via, linker = case['route'], case['via'], case['linker']
    m, pref = dict(map(tuple, case['m'])), case['pref']
    span = make_span(case['span'])
    n = case['span']['n']
    strict, floats = case['strict'], case['floats']
    table, extra = case['table'], case['extra']

    def canon(cols):
        return [[b.chain_end(m, lab), val] for lab, val in cols]
    if linker:
        LBase, Sub, SubA = _linker_bases()
        Base = LBase
        s = case['sub']
        sub_a = {'a': SubA.from_dataframe(_int_frame(span, [[s['Y_label'], s['Y']], [s['G_label'], s['G']]], False)),
                 'b': Sub.from_dataframe(_int_frame(span, [['G', s['G']]], False))}
        sub_t = {'a': Sub.from_dataframe(_int_frame(span, [['Y', s['Y']], ['G', s['G']]], False)),
                 'b': Sub.from_dataframe(_int_frame(span, [['G', s['G']]], False))}
    else:
        Base = model_base(case['base'])
        sub_a = sub_t = None
    variables = list(Base.NAMES)
    A = type('Aliased', (AliasMixin, Base), {'ALIASES': dict(m), 'PREFERRED_NAMES': list(pref)})
    if b.pref_ambiguous(m, pref):
        return 'ambiguous-preferences'
    export_kw = {} if route == 'roundtrip-full' else {'status': False, 'iterations': False}
    key = lambda what: f'ctor-route-{what}:{route}'                    # noqa: E731
    try:
        with b.time_limit(4.0), warnings.catch_warnings():
            warnings.simplefilter('ignore')
            try:
                (a, a0), aerr = _build(route, via, A, span, strict, table, extra, floats, export_kw, True, sub_a), None
            except b.Hang:
                raise
            except Exception as e:  # noqa: BLE001
                (a, a0), aerr = (None, None), type(e).__name__
    except b.Hang:
        rep.violate(b.hang_key(m), f'constructor route {route} did not return within 4 s for ALIASES={m}', jc)
        return 'hang'
    try:
        with warnings.catch_warnings():
            warnings.simplefilter('ignore')
            (t, t0), terr = _build(route, via, Base, span, strict, canon(table), canon(extra), floats, export_kw, False,
                                   sub_t), None
    except Exception as e:  # noqa: BLE001
        (t, t0), terr = (None, None), type(e).__name__
    if tcases is not None and not floats and route in ('kwargs', 'from_dataframe', 'from_dataframe+kw', 'roundtrip',
                                                        'linker-kw'):
        mroute = {'from_dataframe+kw': 'from_dataframe', 'linker-kw': 'linker'}.get(route, route)
        cols = table
        if route == 'roundtrip':
            # what the plain export of the first-stage object holds: one column per variable
            kw0 = {b.chain_end(m, k): v for k, v in table}
            cols = [[v, kw0.get(v, 0)] for v in variables]
        if all(isinstance(v, int) or (isinstance(v, list) and all(isinstance(x, int) for x in v))
               for _, v in cols + extra):
            impl = 'ERR' if a is None else ';'.join(f'{v}={int_series(a[v])}' for v in a.names)
            tcases.append(({'route': mroute, 'm': case['m'], 'pref': pref, 'names': variables, 'strict': strict, 'n': n,
                            'cols': cols, 'extra': extra}, impl, jc))
    if aerr != terr:
        what = (f'route {route}: the aliased class with labels {[k for k, _ in table]} + keywords {[k for k, _ in extra]} '
                f'gives {aerr or "an instance"}, the class without the mixin with {[k for k, _ in canon(table)]} + '
                f'{[k for k, _ in canon(extra)]} gives {terr or "an instance"} (ALIASES={m}, strict={strict})')
        rep.violate(key('twin-diverges'), what, jc)
        return 'outcome'
    if a is None:
        return 'ctor-error:' + str(aerr)
    # absolutely: the variable a label resolves to holds that column's values; the others the default
    given = {}
    for lab, val in table + extra:
        tgt = b.chain_end(m, lab)
        if tgt in variables:
            given[tgt] = (lab, val)
    for v in variables:
        got = np.asarray(a[v])
        if v in given:
            lab, val = given[v]
            want = _expected(val, n)
            if got.shape != want.shape or not np.array_equal(got.astype(float), want, equal_nan=True):
                dropped = lab != v and got.shape == (n,) and not np.any(got.astype(float) != 0.0)
                rep.violate(key('alias-dropped' if dropped else 'value-differs'),
                            f'route {route}: the data named {lab!r} ({case["mode"]}; resolves to {v!r}) is {val}, but '
                            f'{v!r} holds {got.tolist()} afterwards' + (' - the default: the column never reached '
                            'the variable' if dropped else '') + f' (ALIASES={m}, strict={strict})', jc)
                return 'dropped' if dropped else 'value'
        elif got.shape != (n,) or np.any(got.astype(float) != 0.0):
            rep.violate(key('value-differs'), f'route {route}: no label resolves to {v!r}, yet it holds {got.tolist()} '
                        f'(labels {[k for k, _ in table + extra]}, ALIASES={m})', jc)
            return 'value'
    skip = b.MIXIN_ATTRS + (('submodels',) if linker else ())
    sa, st = b.full_state(a, skip, t), b.full_state(t, ('submodels',) if linker else ())
    if sa != st:
        rep.violate(key('twin-diverges'), f'route {route}: the instance differs from the canonical twin (the class '
                    f'without the mixin, data under canonical names): ' + nice_diff(sa, st) + f' (ALIASES={m})', jc)
        return 'state'
    if linker:
        for sid in sub_t:
            ssa = b.full_state(a.submodels[sid], b.MIXIN_ATTRS, t.submodels[sid])
            if ssa != b.full_state(t.submodels[sid]):
                rep.violate(key('twin-diverges'), f'route {route}: submodel {sid!r} (built by from_dataframe with columns '
                            f'{case["sub"]["Y_label"]!r}, {case["sub"]["G_label"]!r}) differs from the twin\'s: '
                            + nice_diff(ssa, b.full_state(t.submodels[sid])), jc)
                return 'submodel'
    if a0 is not None:
        before = b.full_state(a0, skip)
    # the instance answers to every declared spelling (reads), then a few operations through aliases
    for sp, v in [(sp, b.chain_end(m, sp)) for sp in b.strip_self(m)]:
        if v in variables:
            try:
                ok = a[sp] is a[v] and getattr(a, sp) is getattr(a, v)
            except Exception:  # noqa: BLE001
                ok = False
            if not ok:
                rep.violate(key('instance-map'), f'route {route}: reading {sp!r} on the new instance does not hand out '
                            f'the series of {v!r} (ALIASES={m})', jc)
                return 'map'
    r = b.drive_ops(rep, jc, a, t, m, case['ops'], prefix=f'ctor-route:{route}:', who=f'route {route}: ')
    if r is not None:
        return r
    if a0 is not None and case['ops'] and route not in ('roundtrip', 'roundtrip-full'):
        if b.full_state(a0, skip) != before:
            rep.violate(key('copy-shares-state'), f'route {route}: operations on the copy changed the original: '
                        + nice_diff(b.full_state(a0, skip), before), jc)
            return 'shared'
    try:
        with warnings.catch_warnings():
            warnings.simplefilter('ignore')
            ea, et = a.to_dataframe(), t.to_dataframe()
    except Exception as e:  # noqa: BLE001
        rep.violate(key('twin-diverges'), f'route {route}: to_dataframe() of the new instance raised {type(e).__name__}', jc)
        return 'export'
    if not b.frames_equal(ea, et):
        rep.violate(key('twin-diverges'), f'route {route}: plain export of the new instance differs from the twin\'s', jc)
        return 'export'
    return 'ok'


KEY_TWO_SPELLINGS = 'ctor-two-spellings-of-one-variable:later-wins'


def gen_two_spellings_case(rng, fixed=None):
    if fixed is not None:
        return dict({'part': 'ctor-two-spellings', 'base': 'plain', 'span': {'kind': 'int', 'n': 3}}, **fixed)
    which = rng.choice(['plain', 0, 1, 2])
    variables = list(model_base(which).NAMES)
    for _ in range(20):
        items, depth = route_alias_map(rng, variables)
        m = dict(items)
        by = spellings(m, variables)
        multi = [v for v in variables if len(by[v]) > 1]
        if multi:
            break
    else:
        return None
    first, second = rng.sample(by[rng.choice(multi)], 2)
    return {'part': 'ctor-two-spellings', 'base': which, 'span': {'kind': rng.choice(['int', 'str']), 'n': 3}, 'm': items,
            'variant': rng.choice(['kwargs', 'from_dataframe+kw']), 'first': first, 'second': second,
            'v1': [rng.randrange(1, 50) for _ in range(3)], 'v2': [rng.randrange(50, 99) for _ in range(3)]}


def run_two_spellings_case(ctx, rep, case, tcases=None):
    """One variable given twice in one call, through two spellings.  The same call on the class without the mixin,
    with the canonical name in both places, is Python's TypeError (got multiple values for keyword argument)."""
    b = base()
    m = dict(map(tuple, case['m']))
    Base = model_base(case['base'])
    A = type('Aliased', (AliasMixin, Base), {'ALIASES': dict(m)})
    span = make_span(case['span'])
    n = case['span']['n']
    target = b.chain_end(m, case['first'])

    def call(cls, k1, k2):
        try:
            if case['variant'] == 'kwargs':
                obj = cls(span, **{k1: case['v1']}, **({k2: case['v2']} if k2 != k1 else {})) if cls is A else \
                    cls(span, **{k1: case['v1']}, **{k2: case['v2']})
            else:
                obj = cls.from_dataframe(_int_frame(span, [[k1, case['v1']]], False), **{k2: case['v2']})
            return 'instance: ' + target + '=' + int_series(obj[target])
        except Exception as e:  # noqa: BLE001
            return type(e).__name__
    ra = call(A, case['first'], case['second'])
    rt = call(Base, target, target)
    rep.dist[f'ctor-two-spellings:{case["variant"]}:{"same" if ra == rt else "differs"}'] += 1
    if ra != rt:
        what = ('Model(span, **{%r: v1, %r: v2})' if case['variant'] == 'kwargs' else
                'Model.from_dataframe(frame with the column %r, **{%r: v2})') % (case['first'], case['second'])
        rep.violate(KEY_TWO_SPELLINGS, f'{what}: both names resolve to {target!r} (ALIASES={m}); the call returns '
                    f'{ra} - one of the two values is dropped without a word (v1={case["v1"]}, v2={case["v2"]}); the same '
                    f'call with the underlying variable named in both places gives {rt} on the class without the mixin', case)
    if tcases is not None and ra.startswith('instance'):
        cols = [[case['first'], case['v1']]] + ([[case['second'], case['v2']]] if case['variant'] == 'kwargs' else [])
        extra = [] if case['variant'] == 'kwargs' else [[case['second'], case['v2']]]
        vs = list(Base.NAMES)
        tcases.append(({'route': 'kwargs' if case['variant'] == 'kwargs' else 'from_dataframe', 'm': case['m'], 'pref': [],
                        'names': vs, 'strict': False, 'n': n, 'cols': cols, 'extra': extra},
                       ra.split(': ', 1)[1], case))
    return 'same' if ra == rt else 'differs'


TWO_SPELLINGS_FIXED = [
    {'m': [['GDP', 'Y'], ['out', 'GDP']], 'variant': 'from_dataframe+kw', 'first': 'Y', 'second': 'GDP', 'v1': [1, 2, 3],
     'v2': [5, 5, 5]},
    {'m': [['GDP', 'Y'], ['out', 'GDP']], 'variant': 'kwargs', 'first': 'Y', 'second': 'out', 'v1': [1, 1, 1],
     'v2': [2, 2, 2]},
]


def check_two_spellings(ctx, rep, rng, count):
    b = base()
    tcases = []
    cases = [gen_two_spellings_case(rng, f) for f in TWO_SPELLINGS_FIXED] + [gen_two_spellings_case(rng) for _ in range(count)]
    for case in cases:
        if case is None or (not b.CYCLIC_OK[0] and not b.is_plain(dict(map(tuple, case['m'])))):
            continue
        run_two_spellings_case(ctx, rep, case, tcases)
        rep.case(('J2', json.dumps(case, sort_keys=True)), nontrivial=True)
    if not ctx.oracle_only and tcases:
        outs = ctx.drive([b.line('alias_ctor_route', c) for c, _, _ in tcases])
        for (c, impl, jc), a in zip(tcases, outs):
            tgt = impl.split('=')[0]
            got = dict(x.split('=') for x in a.split(';')) if '=' in a else {}
            if got.get(tgt) != impl.split('=')[1]:
                rep.disagree('one variable given through two spellings in one constructor call (the model: the later '
                             'keyword wins, keywords after columns): model != impl', jc, a, impl)


def check_ctor_routes(ctx, rep, rng, count):
    b = base()
    tcases = []
    check_two_spellings(ctx, rep, rng, max(6, count // 15))
    for _ in range(count):
        case = gen_route_case(rng)
        m = dict(map(tuple, case['m']))
        if not b.CYCLIC_OK[0] and not b.is_plain(m):
            continue
        regime = run_route_case(ctx, rep, case, tcases)
        jc = b.jsonable_case(case)
        through = any(lab in b.strip_self(m) for lab, _ in case['table'] + case['extra']) or (
            case['linker'] and case['sub']['Y_label'] != 'Y')
        rep.case(('J', json.dumps(jc, sort_keys=True, default=str)), nontrivial=through,
                 sample=b.sample_once('J', 41, rep.evaluations, {'part': 'J', 'case': jc, 'regime': regime}))
        rep.dist['ctor-route:' + regime] += 1
        for d in case['depths'] or [0]:
            rep.dist[f'ctor-route:{case["route"]}:depth{d}'] += 1
        rep.dist[f'ctor-route-mode:{case["mode"]}'] += 1
        rep.dist[f'ctor-route-span:{case["span"]["kind"]}'] += 1
        rep.dist[f'ctor-route-strict:{case["strict"]}'] += 1
        if case['linker']:
            rep.dist['ctor-route-submodel-column:' + case['sub']['Y_label']] += 1
    if not ctx.oracle_only and tcases:
        outs = ctx.drive([b.line('alias_ctor_route', c) for c, _, _ in tcases])
        for (c, impl, jc), a in zip(tcases, outs):
            a2 = 'ERR' if a.startswith('ctor:') or a.startswith('export:') else a
            if a2 != impl:
                rep.disagree('constructor route (construct o resolve-keys): series of the new instance: model != impl',
                             jc, a, impl)


# ---------------------------------------------------------------------------------------------------------------
# (K) the form of the name argument

WRAPPED = ('getitem', 'getat', 'getslice', 'setitem', 'setat', 'setslice', 'getattr', 'setattr', 'replace', 'ctor-kw',
           'ctor-kw-strict', 'from_dataframe', 'export')
LITERAL = ('contains', 'eval', 'addvar', 'setpref')
K_PATHS = ['getitem', 'getat', 'getslice', 'setitem', 'setat', 'setslice', 'getattr', 'setattr', 'contains', 'replace',
           'ctor-kw', 'ctor-kw-strict', 'from_dataframe', 'addvar', 'export', 'export', 'eval', 'setpref']
NEW_VARS = ['W', 'Z2', 'extra_v']


def gen_form_case(rng):
    which = rng.choice(['plain', 'plain', 0, 1, 2])
    variables = list(model_base(which).NAMES)
    items, depth = route_alias_map(rng, variables)
    m = dict(items)
    form = rng.choice(FORMS[1:])
    decl_form = form if rng.random() < 0.3 else 'str'
    n = rng.choice([3, 4])
    span = {'kind': rng.choice(['int', 'int', 'str']), 'n': n}
    labels = make_span(span)
    strict = rng.random() < 0.2
    by = spellings(m, variables)
    und = [k for k in m if _end(m, k) == 'undefined_x']
    new_vars = list(NEW_VARS)

    def name():
        r = rng.random()
        if r < 0.72:
            text = rng.choice(by[rng.choice(variables)])
        elif r < 0.9:
            text = rng.choice(variables)
        else:
            text = rng.choice(und + ['nosuch', 'memo'])
        return spec(form if rng.random() < 0.75 else rng.choice(FORMS), text)

    def value(whole=True):
        if whole and rng.random() < 0.35:
            return [rng.randrange(1, 99) for _ in range(n)]
        return rng.randrange(1, 99)
    ops = []
    for _ in range(rng.randrange(4, 11)):
        k = rng.choice(K_PATHS)
        op = {'k': k, 'names': [name()]}
        if k in ('setitem', 'setattr', 'ctor-kw', 'ctor-kw-strict'):
            op['v'] = value()
        elif k in ('getat', 'setat'):
            op['ix'] = rng.choice(labels)
            if k == 'setat':
                op['v'] = value(False)
        elif k in ('getslice', 'setslice'):
            i = rng.randrange(n)
            op['ix'] = [labels[i], labels[rng.randrange(i, n)]]
            if k == 'setslice':
                op['v'] = value(False)
        elif k == 'replace':
            ts = rng.sample(variables, min(len(variables), rng.choice([1, 2, 3])))
            op['names'] = [spec(form if rng.random() < 0.75 else rng.choice(FORMS), rng.choice(by[t])) for t in ts]
            op['vs'] = [value() for _ in ts]
        elif k == 'from_dataframe':
            ts = rng.sample(variables, min(len(variables), rng.choice([1, 2, 3])))
            op['names'] = [spec(form if rng.random() < 0.8 else rng.choice(FORMS), rng.choice(by[t])) for t in ts]
            op['vs'] = [[rng.randrange(1, 99) for _ in range(n)] for _ in ts]
            op['strict'] = rng.random() < 0.3
        elif k == 'addvar':
            if not new_vars:
                continue
            op['names'] = [spec(form, new_vars.pop())]
            op['v'] = value()
        elif k == 'setpref':
            ts = rng.sample(variables, min(len(variables), rng.choice([1, 1, 2])))
            op['names'] = [spec(form, rng.choice(by[t])) for t in ts]
        elif k == 'eval':
            x, y = rng.choice(variables), rng.choice(variables)
            text = rng.choice([f'{x} + {y}', f'{x}[-1] * 2', f'{x}', rng.choice(list(m) or [x]) + ' + 1'])
            op['names'] = [spec(form, text)]
        ops.append(op)
    return {'part': 'name-form', 'base': which, 'm': items, 'pref': pick_pref(rng, m, variables), 'span': span,
            'strict': strict, 'form': form, 'decl_form': decl_form, 'ops': ops}


def _state(obj):
    b = base()
    return b.full_state(obj, b.MIXIN_ATTRS)


def form_apply(obj, op, names, span, n, strict, aliased):
    """One operation with the given name objects.  Returns (status, comparable with the canonical twin, comparable
    with the other spelling only)."""
    b = base()
    fp = b.fingerprint
    k = op['k']
    nm = names[0]
    try:
        with warnings.catch_warnings():
            warnings.simplefilter('ignore')
            if k == 'getitem':
                return ('ok', fp(obj[nm]), None)
            if k == 'getat':
                return ('ok', fp(obj[nm, op['ix']]), None)
            if k == 'getslice':
                return ('ok', fp(obj[nm, slice(op['ix'][0], op['ix'][1])]), None)
            if k == 'getattr':
                return ('ok', fp(getattr(obj, nm)), None)
            if k == 'contains':
                return ('ok', bool(nm in obj), None)
            if k == 'eval':
                return ('ok', fp(obj.eval(nm)), None)
            if k == 'setitem':
                obj[nm] = op['v']
            elif k == 'setat':
                obj[nm, op['ix']] = op['v']
            elif k == 'setslice':
                obj[nm, slice(op['ix'][0], op['ix'][1])] = op['v']
            elif k == 'setattr':
                setattr(obj, nm, op['v'])
            elif k == 'replace':
                obj.replace_values(**{x: v for x, v in zip(names, op['vs'])})
            elif k == 'setpref':
                if aliased:                   # (the class without the mixin has no such attribute)
                    obj.preferred_names = list(names)
            elif k == 'addvar':
                obj.add_variable(nm, op['v'])
                return ('ok', fp(obj[plain_text(nm)]), None)
            elif k in ('ctor-kw', 'ctor-kw-strict'):
                new = type(obj)(span, strict=(k == 'ctor-kw-strict'), **{nm: op['v']})
                return ('ok', sorted(_state(new).items(), key=lambda kv: kv[0]), None)
            elif k == 'from_dataframe':
                new = type(obj).from_dataframe(_int_frame(span, list(zip(names, op['vs'])), False), strict=op['strict'])
                return ('ok', sorted(_state(new).items(), key=lambda kv: kv[0]), None)
            elif k == 'export':
                df = obj.to_dataframe(use_aliases=True) if aliased else obj.to_dataframe()
                return ('ok', (df.shape, list(df.index), b.frame_cols(df)), [plain_text(c) for c in df.columns])
            return ('ok', None, None)
    except b.Hang:
        raise
    except Exception as e:  # noqa: BLE001
        return ('exc', type(e).__name__, None)


def run_form_case(ctx, rep, case, tcases=None):
    b = base()
    Base = model_base(case['base'])
    variables = list(Base.NAMES)
    items = case['m']
    m, pref = dict(map(tuple, items)), case['pref']
    if b.pref_ambiguous(m, pref):
        return 'ambiguous-preferences'
    decl = case['decl_form']
    span = make_span(case['span'])
    n = case['span']['n']
    strict = case['strict']
    AF = type('AliasedF', (AliasMixin, Base), {
        'ALIASES': {mk_name(spec(decl, k)): mk_name(spec(decl, v)) for k, v in items},
        'PREFERRED_NAMES': [mk_name(spec(decl, p)) for p in pref]})
    AS = type('AliasedS', (AliasMixin, Base), {'ALIASES': dict(m), 'PREFERRED_NAMES': list(pref)})
    init = {v: [10 * (i + 1) + j for j in range(n)] for i, v in enumerate(variables)}
    try:
        with b.time_limit(4.0):
            a_f, a_s = AF(span, strict=strict, **init), AS(span, strict=strict, **init)
    except b.Hang:
        rep.violate(b.hang_key(m), f'constructor did not return within 4 s for ALIASES={m}', case)
        return 'hang'
    except Exception as e:  # noqa: BLE001
        rep.violate(f'name-form-diverges:{decl}:declaration', f'constructing the class whose ALIASES / PREFERRED_NAMES are '
                    f'written as {decl} raised {type(e).__name__} (ALIASES={m}, PREFERRED_NAMES={pref})', case)
        return 'declaration'
    t_f, t_s = Base(span, strict=strict, **init), Base(span, strict=strict, **init)
    if _state(a_f) != _state(a_s):
        rep.violate(f'name-form-diverges:{decl}:declaration', f'ALIASES / PREFERRED_NAMES written as {decl}: the new '
                    'instance differs from the one of the class that declares the same names as plain str: '
                    + nice_diff(_state(a_f), _state(a_s)), case)
        return 'declaration'
    cur_pref = list(pref)
    for i, op in enumerate(case['ops']):
        k = op['k']
        specs = op['names']
        forms = [s['form'] for s in specs]
        form = next((f for f in forms if f not in EXACT_STR), forms[0])
        texts = [s['text'] for s in specs]
        wrapped = k in WRAPPED
        n_f = [mk_name(s) for s in specs]
        tn_f = [mk_name(spec(s['form'], b.chain_end(m, s['text']))) for s in specs] if wrapped else n_f
        tn_s = [b.chain_end(m, x) for x in texts] if wrapped else texts
        r_af = form_apply(a_f, op, n_f, span, n, strict, True)
        r_as = form_apply(a_s, op, texts, span, n, strict, True)
        r_tf = form_apply(t_f, op, tn_f, span, n, strict, False)
        r_ts = form_apply(t_s, op, tn_s, span, n, strict, False)
        rep.dist[f'name-form:{form}:{k}'] += 1
        key = f'name-form-diverges:{form}:{k}'
        s_af, s_as, s_tf, s_ts = _state(a_f), _state(a_s), _state(t_f), _state(t_s)
        shown = [f'{s["form"]}({s["text"]!r})' for s in specs]
        if r_af != r_as or s_af != s_as:
            if r_tf != r_ts or s_tf != s_ts:
                # the class without the mixin tells the forms apart on this path: nothing is required of the mixin
                rep.dist[f'name-form-plain-class-form-sensitive:{form}:{k}'] += 1
                if s_af == s_as and s_tf == s_ts:
                    continue                 # nothing was written: the history goes on
                return 'plain-class-form-sensitive'
            rep.violate(key, f'op {i} {k} through {shown} gave {_show(r_af, r_as)}; the same names as plain str gave '
                        f'{_show(r_as, r_af)}' + ('' if s_af == s_as else '; state: ' + nice_diff(s_af, s_as))
                        + f' (ALIASES={m}, declared as {decl}; the class without the mixin treats both forms alike)', case)
            return 'form'
        literal_alias = (not wrapped) and (any(x in b.strip_self(m) for x in texts) or k in ('eval', 'setpref'))
        if not literal_alias and (r_af[:2] != r_tf[:2] or s_af != s_tf):
            rep.violate(key, f'op {i} {k} through {shown} gave {_show(r_af, r_tf)}; the class without the mixin through '
                        f'the canonical names {[b.chain_end(m, x) for x in texts]} in the same form gave {_show(r_tf, r_af)}'
                        + ('' if s_af == s_tf else '; state: ' + nice_diff(s_af, s_tf)) + f' (ALIASES={m})', case)
            return 'twin'
        if k == 'export' and r_af[0] == 'ok':
            regime = export_labels_ok(m, cur_pref, [plain_text(c) for c in t_s.to_dataframe().columns], r_af[2])
            if regime is not None:
                rep.violate(key, f'op {i} export: ' + regime + f' (ALIASES={m} declared as {decl}, preferred {cur_pref})', case)
                return 'export'
        if k == 'setpref' and r_as[0] == 'ok':
            cur_pref = list(texts)
    if tcases is not None:
        names_all = [k for k, _ in items] + variables + ['undefined_x', 'nosuch']
        for f in FORMS:
            try:
                impl = ','.join(f'{x}>{plain_text(a_f._resolve_alias(mk_name(spec(f, x))))}' for x in names_all)
            except Exception as e:  # noqa: BLE001
                impl = 'raised:' + type(e).__name__
            tcases.append(({'m': items, 'names': names_all}, impl, dict(case, resolve_form=f)))
    return 'ok'


def _show(r, other):
    """An outcome for a message; the state of a freshly built instance is shown as its difference to `other`."""
    b = base()
    if r[0] == 'ok' and isinstance(r[1], list) and r[1] and isinstance(r[1][0], tuple) and isinstance(r[1][0][0], str):
        if other[0] == 'ok' and isinstance(other[1], list):
            return 'an instance with ' + (nice_diff(dict(r[1]), dict(other[1])) or 'the same state')
        return 'an instance'
    return pretty(tuple(r[:2]))


def export_labels_ok(m, pref, plain_labels, new_labels):
    """Labels of the aliased export against the plain ones: a changed label is an alias of the old one; preferred
    names are used.  None = fine."""
    b = base()
    m = b.strip_self(m)
    if len(plain_labels) != len(new_labels):
        return f'{len(new_labels)} columns instead of {len(plain_labels)}'
    for old, nw in zip(plain_labels, new_labels):
        if nw != old and not (nw in m and b.chain_end(m, nw) == old):
            return f'column {old!r} was renamed to {nw!r}, which is not an alias of it'
    for p in pref:
        t = b.chain_end(m, p)
        if t in plain_labels and new_labels[plain_labels.index(t)] != p and not any(k in plain_labels for k in m):
            return f'{p!r} is the preferred name of {t!r} but the column is called {new_labels[plain_labels.index(t)]!r}'
    return None


def check_name_forms(ctx, rep, rng, count):
    b = base()
    tcases = []
    for _ in range(count):
        case = gen_form_case(rng)
        m = dict(map(tuple, case['m']))
        if not b.CYCLIC_OK[0] and not b.is_plain(m):
            continue
        regime = run_form_case(ctx, rep, case, tcases)
        through = any(s['text'] in b.strip_self(m) and s['form'] not in EXACT_STR
                      for op in case['ops'] for s in op['names'])
        rep.case(('K', json.dumps(case, sort_keys=True)), nontrivial=through,
                 sample=b.sample_once('K', 37, rep.evaluations, {'part': 'K', 'case': case, 'regime': regime}))
        rep.dist['name-form:' + regime] += 1
        rep.dist['name-form-declaration:' + case['decl_form']] += 1
    if not ctx.oracle_only and tcases:
        outs = ctx.drive([b.line('alias_shorten', c) for c, _, _ in tcases])
        for (c, impl, jc), a in zip(tcases, outs):
            want = a.split('|')[2] if a.count('|') == 2 else a
            if want != impl:
                rep.disagree(f'_resolve_alias on names given as {jc["resolve_form"]} (names are abstract in the model: '
                             'one name, whatever its str form): model != impl', jc, want, impl)
