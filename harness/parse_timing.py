"""C13 "for every input string parse_model terminates": wall-clock budget and growth check on long identifiers.

The Lean scanner terminates by structural recursion, so the model cannot speak about the running time of the real
regular-expression engine (backtracking); the tie for this clause is this budget check.  Scripts are parsed in a
child interpreter that reports one line per script; the parent enforces the budget per script (calibrated on a
reference parse measured in the same child, so that machine load scales the budget) and kills the child when it is
exceeded."""
import json, os, select, subprocess, sys, time

LENGTHS = [1, 2, 4, 8, 12, 16, 20, 24, 28, 32, 40, 48, 64]

FAMILIES = {
    'letters': lambda n: ('a' * n),
    'mixed': lambda n: ('Ab1_' * n)[:n],
    'underscores': lambda n: ('_' + 'x_' * n)[:n],
    'digits': lambda n: ('x' + '0123456789' * n)[:n],
    'dotted': lambda n: ('ab.' * n)[:n].rstrip('.') or 'a',
    'dotted-long': lambda n: ('abcdefgh.' * n)[:n].rstrip('.') or 'a',
}

CONTEXTS = {
    'bare': 'Y_ = {N}', 'sum': 'Y_ = {N} + {N} * 2', 'called': 'Y_ = {N}(X_)', 'called-space': 'Y_ = {N}  (X_)',
    'indexed': 'Y_ = {N}[-1]', 'indexed-spaced': 'Y_ = {N}[ 0 ]', 'parameter': 'Y_ = {{{N}}} * X_',
    'parameter-spaced': 'Y_ = {{ {N} }}', 'error': 'Y_ = X_ + <{N}>', 'lhs': '{N} = X_', 'lhs-indexed': '{N}[0] = X_',
    'parenthesised': 'Y_ = ({N})', 'comment': 'Y_ = X_  # {N}', 'before-bracket-gap': 'Y_ = {N} [1]',
    'no-equals': '{N}', 'keyword-after': 'Y_ = {N} if X_ else {N}', 'period': "Y_ = {N}['{N}']",
}

REFERENCE = 'Y_ = C + I[-1] + exp(G) * {a}'

CHILD = r'''
import json, sys, time
import fsic
def run(s):
    t = time.perf_counter()
    try:
        fsic.parse_model(s); out = 'accepted'
    except Exception as e:
        out = type(e).__name__
    return time.perf_counter() - t, out
ref = sorted(run(%r)[0] for _ in range(25))[12]
print(json.dumps(['ref', ref]), flush=True)
for i, s in json.loads(sys.stdin.readline()):
    best, out = min(run(s) for _ in range(3))
    print(json.dumps([i, best, out]), flush=True)
''' % REFERENCE


def scripts(families=None, contexts=None, lengths=None):
    """[(shape, n, script)] ordered by shape, then ascending n."""
    out = []
    for fam, mk in FAMILIES.items():
        if families and fam not in families:
            continue
        for ctxname, tpl in CONTEXTS.items():
            if contexts and ctxname not in contexts:
                continue
            if fam.startswith('dotted') and ctxname not in ('bare', 'sum', 'called', 'called-space', 'parenthesised', 'no-equals'):
                continue
            for n in (lengths or LENGTHS):
                out.append((f'{fam}/{ctxname}', n, tpl.replace('{N}', mk(n)).replace('{{', '{').replace('}}', '}')))
    return out


def run(items, min_budget=5.0, factor=5000.0, max_restarts=4):
    """-> (times {(shape, n): seconds}, timeouts [(shape, n, script, budget)], ref seconds)."""
    times, timeouts, ref = {}, [], None
    todo = list(enumerate(items))
    restarts = 0
    while todo and restarts <= max_restarts:
        p = subprocess.Popen([sys.executable, '-c', CHILD], stdin=subprocess.PIPE, stdout=subprocess.PIPE, text=True)
        p.stdin.write(json.dumps([[i, it[2]] for i, it in todo]) + '\n')
        p.stdin.flush()
        budget = 60.0   # for start-up + calibration
        killed = False
        pending = list(todo)
        while pending or ref is None:
            r, _, _ = select.select([p.stdout], [], [], budget)
            if not r:
                p.kill()
                killed = True
                break
            line = p.stdout.readline()
            if not line:
                break
            msg = json.loads(line)
            if msg[0] == 'ref':
                ref = msg[1]
                budget = max(min_budget, factor * ref) * 3   # three repetitions per script
                continue
            i, dt, out = msg
            times[(items[i][0], items[i][1])] = dt
            pending = [x for x in pending if x[0] != i]
        p.stdin.close()
        try:
            p.wait(timeout=5)
        except Exception:  # noqa: BLE001
            p.kill()
        if killed and pending:
            i, it = pending[0]
            timeouts.append((it[0], it[1], it[2], budget / 3))
            todo = [x for x in pending[1:] if x[1][0] != it[0]]   # skip the longer names of the same shape
            restarts += 1
        else:
            todo = []
    return times, timeouts, ref


def growth_table(times):
    """shape -> {n: seconds} and the worst ratios."""
    table = {}
    for (shape, n), dt in times.items():
        table.setdefault(shape, {})[n] = dt
    return table
