#!/bin/sh
# usage: refactor_test.sh <dir with patch.diff> <Cxx> [Cxx ...]  — harmless-refactor false-alarm test:
# applies the patch in a scratch worktree of /repo and runs the given checks (in parallel) against it via FSIC_REPO.
d="$1"; shift
w=$(mktemp -d /tmp/mut.XXXXXX)
git -C /repo worktree add -q --detach "$w/r" HEAD || exit 2
if ! git -C "$w/r" apply "$d/patch.diff"; then echo "PATCH DOES NOT APPLY: $d"; git -C /repo worktree remove --force "$w/r"; rm -rf "$w"; exit 3; fi
cp -r /verif/evidence "$w/ev"
cd /verif
for p in "$@"; do echo $p; done | xargs -P 8 -I{} sh -c "FSIC_REPO=$w/r ./check {} quick 2>&1 | grep -E '^VIOLATION|^INFRA|^{} quick' | sed 's#^#$(basename $d): #'"
cp "$w/ev/"* /verif/evidence/
git -C /repo worktree remove --force "$w/r"; rm -rf "$w"
