"""Reflected probe table of `VectorContainer.reindex` per NumPy dtype (read by lean/Proofs/C12.lean).

For every dtype of a fixed catalogue a one-variable container is reindexed by the imported fsic (a) with no fill
value and (b) with `fill_value=2.9`, and what the new period holds is written to Generated.lean.  The theorems
`Fsic.C12.reflected_branches` / `reflected_property_defaults` quantify over this enumeration, so the model's dtype
branch function and the property's default table are re-checked against what the code does now."""
import struct, warnings

CATALOGUE = ['bool', 'int8', 'int16', 'int32', 'int64', 'uint8', 'uint16', 'uint32', 'uint64', 'float16', 'float32',
             'float64', 'complex64', 'complex128', '<U5', '<U1', 'S3', 'object', 'datetime64[D]', 'timedelta64[D]']


def lchars(t):
    def ch(c):
        return "'\\''" if c == "'" else ("'\\\\'" if c == '\\' else "'" + c + "'")
    return '[' + ', '.join(ch(c) for c in t) + ']'


def enc(x):
    """(tag, int, bool, chars) encoding of one array element (mirrors `Fsic.Reindex.Val.enc`)."""
    import numpy as np
    if isinstance(x, Exception):
        return ('err', 0, False, '')
    if isinstance(x, (bool, np.bool_)):
        return ('b', 0, bool(x), '')
    if isinstance(x, np.timedelta64):
        return ('i', int(x.astype('int64')), False, '')
    if isinstance(x, (int, np.integer)):
        return ('i', int(x), False, '')
    if isinstance(x, (float, np.floating, complex, np.complexfloating)):
        if np.isnan(x):
            return ('nan', 0, False, '')
        if isinstance(x, (float, np.float64)):
            return ('f', struct.unpack('<Q', struct.pack('<d', float(x)))[0], False, '')
        return ('o', 0, False, type(x).__name__)
    if isinstance(x, str):
        return ('s', 0, False, str(x))
    if isinstance(x, bytes):
        return ('y', 0, False, x.decode('latin1'))
    return ('o', 0, False, 'NaT' if str(x) == 'NaT' else type(x).__name__)


def lean_enc(e):
    return f'({chr(34)}{e[0]}{chr(34)}, ({e[1]} : Int), {"true" if e[2] else "false"}, {lchars(e[3])})'


def probe(dtype):
    import numpy as np
    from fsic.core.containers import VectorContainer
    dt = np.dtype(dtype)
    init = {'b': [True, True], 'U': ['a', 'a'], 'S': [b'a', b'a'], 'O': [None, None],
            'M': [np.datetime64('2000-01-01')] * 2, 'm': [np.timedelta64(1, 'D')] * 2}.get(dt.kind, [1, 1])
    out = []
    for kw in ({}, {'fill_value': 2.9}):
        with warnings.catch_warnings():
            warnings.simplefilter('ignore')
            try:
                c = VectorContainer(range(2))
                c.add_variable('V', init, dtype=dt)
                r = c.reindex(range(1, 3), **kw)
                out.append(enc(r['V'][1]))
            except Exception as e:  # noqa: BLE001
                out.append(enc(e))
    return dt.kind, dt.itemsize, out[0], out[1]


def tables():
    L = ['/-- `reindex` probes per dtype: (dtype, NumPy kind, item size, new period with no fill, new period with',
         '    `fill_value=2.9`); elements encoded as (tag, int, bool, chars). -/',
         'def reindexProbes : List (String × Char × Nat × (String × Int × Bool × List Char) × (String × Int × Bool × List Char)) := [']
    rows = []
    for d in CATALOGUE:
        k, n, a, b = probe(d)
        rows.append(f'  ("{d}", \'{k}\', {n}, {lean_enc(a)}, {lean_enc(b)})')
    L.append(',\n'.join(rows) + ']')
    return L
