"""Shared by the C11 check: programs over real fsic objects (classes, instances, copy routes, mutations through a
root), extraction of the *sharing graph* of real objects, and the twin-run oracle's full observable state."""
import copy, enum, json, types

import numpy as np

import fsic
from fsic.core.containers import VectorContainer
from fsic.core.interfaces import ModelInterface
from fsic.core.linkers import BaseLinker
from fsic.core.models import BaseModel
from fsic.extensions import AliasMixin, TracerMixin
from fsic.extensions.model import Trace

CLASS_ATTRS = ['ENDOGENOUS', 'EXOGENOUS', 'PARAMETERS', 'ERRORS', 'NAMES', 'CHECK']
IMMUTABLE = (str, bytes, int, float, complex, bool, type(None), np.generic, np.dtype, type, range, frozenset,
             enum.Enum, types.FunctionType, types.BuiltinFunctionType, types.MethodType, slice, type(Ellipsis))


def is_immutable(x):
    if isinstance(x, IMMUTABLE):
        return True
    mod = type(x).__module__ or ''
    if mod.startswith('pandas'):   # Index / Period / Timestamp: treated as immutable values (TRUSTED)
        return True
    return False


def array_identity(a):
    """Arrays that are views of one buffer count as the same object."""
    b = a
    while isinstance(b.base, np.ndarray):
        b = b.base
    return ('buf', id(b.base)) if b.base is not None else ('obj', id(b))


def identity(x):
    if isinstance(x, np.ndarray):
        return array_identity(x)
    return ('obj', id(x))


def class_attr_names(cls):
    names = []
    if issubclass(cls, ModelInterface):
        names += CLASS_ATTRS
    if issubclass(cls, AliasMixin):
        names += ['ALIASES', 'PREFERRED_NAMES']
    if issubclass(cls, TracerMixin):
        names += ['TRACE_VARIABLES']
    return names


def children(x):
    """(key, child) pairs of a mutable object, in a fixed order."""
    if isinstance(x, type):
        return [(k, getattr(x, k)) for k in class_attr_names(x)]
    if isinstance(x, (list, tuple)):
        return [(str(i), v) for i, v in enumerate(x)]
    if isinstance(x, dict):
        return [(str(k), v) for k, v in x.items()]
    if isinstance(x, np.ndarray):
        if x.dtype == object:
            return [(str(i), v) for i, v in enumerate(x.reshape(-1))]
        return []
    if isinstance(x, (set,)):
        return []
    d = getattr(x, '__dict__', None)
    if isinstance(d, dict):
        return [(str(k), v) for k, v in d.items()]
    return []


def holds_mutable(x, depth=0):
    if depth > 12:
        return False
    if isinstance(x, tuple):
        return any(holds_mutable(v, depth + 1) for v in x)
    return not is_immutable(x)


def walk(path, x, out, depth=0, is_root=False):
    """Append (path, object) for every *mutable* object reachable from x (tree unfolding)."""
    if depth > 12:
        return
    if isinstance(x, tuple):
        # immutable itself; a node (with edges to its elements) iff it holds, at any depth, a mutable object —
        # `copy.deepcopy` then has to build a new tuple around the copied elements
        if not holds_mutable(x):
            return
        out.append((path, x))
        for k, v in children(x):
            walk(path + '/' + k, v, out, depth + 1)
        return
    if not is_root and is_immutable(x):
        return
    out.append((path, x))
    for k, v in children(x):
        walk(path + '/' + k, v, out, depth + 1)


def content_of(path, x):
    if isinstance(x, list):
        if all(isinstance(v, str) for v in x):
            return path + '=[' + ' '.join(x) + ']'
        return None
    if isinstance(x, dict) and not isinstance(x, type):
        if all(isinstance(v, str) for v in x.values()):
            return path + '={' + ' '.join(sorted(f'{k}:{v}' for k, v in x.items())) + '}'
        return None
    if isinstance(x, np.ndarray):
        return path + '=@' + str(x.shape[0] if x.ndim else 0)
    return None


def snapshot(roots):
    """roots: list of (name, object).  Canonical (partition, contents) of the real objects."""
    ps = []
    for name, x in roots:
        walk(name, x, ps, is_root=True)
    groups = {}
    keep = []
    for p, x in ps:
        keep.append(x)   # keep alive so ids stay unique
        groups.setdefault(identity(x), []).append(p)
    part = sorted(','.join(sorted(g)) for g in groups.values())
    contents = sorted(c for c in (content_of(p, x) for p, x in ps) if c is not None)
    return ';'.join(part) + '|' + ';'.join(contents)


def cross_groups(named):
    """Groups of aliased paths spanning more than one of the named objects (mutable state shared between them)."""
    ps = []
    for name, x in named:
        walk(name, x, ps, is_root=True)
    groups = {}
    for p, x in ps:
        groups.setdefault(identity(x), []).append(p)
    return [sorted(g) for g in groups.values() if len({p.split('/')[0] for p in g}) > 1]


def canon_model_snapshot(s):
    part, _, contents = s.partition('|')
    groups = sorted(','.join(sorted(g.split(','))) for g in part.split(';') if g)
    cs = []
    for c in contents.split(';'):
        if not c:
            continue
        p, _, v = c.partition('=')
        if v.startswith('{'):
            v = '{' + ' '.join(sorted(x for x in v[1:-1].split(' ') if x)) + '}'
        cs.append(p + '=' + v)
    return ';'.join(groups) + '|' + ';'.join(sorted(cs))


# ---- building classes ---------------------------------------------------------------------------------------------

SCRIPTS = [
    'Y = C + I\nC = {a} * Y[-1]',
    'Y = C + G\nC = {c0} + {c1} * Y[-1]\nS = Y - C',
    'A = B[-1] + X\nB = 0.5 * A[1] + Z',
    'Y = 0.5 * X',
]


def make_model_class(rng, style=None, alias=False, tracer=False, trace_vars=None, aliases=None, preferred=None,
                     name='M'):
    """style: 'parser' (CHECK is ENDOGENOUS), 'explicit' (hand-written, separate CHECK), 'inherit' (ENDOGENOUS/CHECK
    inherited from BaseModel), or 'container'."""
    style = style or rng.choice(['parser', 'parser', 'explicit', 'inherit'])
    if style == 'container':
        base = VectorContainer
    elif style == 'parser':
        base = fsic.build_model(fsic.parse_model(rng.choice(SCRIPTS)))
    elif style == 'explicit':
        class base(BaseModel):
            ENDOGENOUS = ['Y', 'C']
            EXOGENOUS = ['G']
            NAMES = ENDOGENOUS + EXOGENOUS
            CHECK = ['Y']

            def _evaluate(self, t, **kwargs):
                self._C[t] = 0.5 * self._Y[t - 1] if t > 0 else 0.0
                self._Y[t] = self._C[t] + self._G[t]
    else:
        class base(BaseModel):
            NAMES = ['P', 'Q']

            def _evaluate(self, t, **kwargs):
                pass
    bases = (base,)
    body = {}
    if tracer and style != 'container':
        bases = (TracerMixin,) + bases
        body['TRACE_VARIABLES'] = list(trace_vars) if trace_vars is not None else None
    if alias:
        bases = (AliasMixin,) + bases
        body['ALIASES'] = dict(aliases or {})
        body['PREFERRED_NAMES'] = list(preferred or [])
    if len(bases) == 1 and style != 'container':
        cls = base
        cls.__name__ = name
    else:
        cls = type(name, bases, body)
    return cls


def make_linker_class(rng, style=None, alias=False, name='L'):
    style = style or rng.choice(['explicit', 'inherit'])
    if style == 'explicit':
        class base(BaseLinker):
            ENDOGENOUS = ['T']
            EXOGENOUS = ['W']
            NAMES = ENDOGENOUS + EXOGENOUS
            CHECK = ENDOGENOUS
    else:
        class base(BaseLinker):
            pass
    if alias:
        return type(name, (AliasMixin, base), {'ALIASES': {'TT': 'T'} if style == 'explicit' else {}, 'PREFERRED_NAMES': []})
    base.__name__ = name
    return base


def class_command(name, cls, keep):
    """The `class` command for the model side: which class attributes are the same object (group label = id)."""
    base = 'linker' if issubclass(cls, BaseLinker) else 'model' if issubclass(cls, BaseModel) else 'container'
    attrs = []
    for k in class_attr_names(cls):
        v = getattr(cls, k)
        keep.append(v)
        if v is None:
            attrs.append({'k': k, 'kind': 'none'})
        elif isinstance(v, dict):
            attrs.append({'k': k, 'g': f'g{id(v)}', 'kind': 'dict', 'entries': [[a, b] for a, b in v.items()]})
        else:
            attrs.append({'k': k, 'g': f'g{id(v)}', 'kind': 'list', 'items': list(v)})
    return {'c': 'class', 'name': name, 'base': base, 'alias': issubclass(cls, AliasMixin),
            'tracer': issubclass(cls, TracerMixin), 'attrs': attrs}


# ---- running a program on real objects ------------------------------------------------------------------------------

def navigate(x, path):
    for k in path:
        if isinstance(x, (list, tuple, np.ndarray)):
            x = x[int(k)]
        elif isinstance(x, dict):
            x = x[k] if k in x else x[int(k)]
        elif isinstance(x, type):
            x = getattr(x, k)
        else:
            x = x.__dict__[k]
    return x


DTYPES = {'float': float, 'int': int, 'bool': bool, 'float32': np.float32, 'str': str, 'object': object}
DTYPE_POOL = ['float', 'float', 'float', 'int', 'bool', 'float32', 'str']

ATTR_SHAPES = ['list', 'dict', 'nested-list', 'tuple-of-lists', 'namedtuple-with-dict', 'tuple-of-ndarray',
               'dict-of-lists']
Bounds = None


def _namedtuple():
    global Bounds
    if Bounds is None:
        import collections
        Bounds = collections.namedtuple('Bounds', ['label', 'table'])
    return Bounds


def attr_spec(shape, tag):
    """A nested attribute value as a JSON-able spec."""
    L = lambda *xs: {'t': 'list', 'items': list(xs)}   # noqa: E731
    if shape == 'list':
        return L(tag + 'u', tag + 'v')
    if shape == 'dict':
        return {'t': 'dict', 'entries': [['k1', tag + 'a'], ['k2', tag + 'b']]}
    if shape == 'nested-list':
        return L(L(tag + 'a'), L(tag + 'b', tag + 'c'))
    if shape == 'tuple-of-lists':
        return {'t': 'tuple', 'items': [L(tag + 'lo'), L(tag + 'hi')]}
    if shape == 'namedtuple-with-dict':
        return {'t': 'namedtuple', 'items': [tag + 'label', {'t': 'dict', 'entries': [['k', tag + 'v']]}]}
    if shape == 'tuple-of-ndarray':
        return {'t': 'tuple', 'items': [{'t': 'array', 'n': 2}, {'t': 'array', 'n': 3}]}
    if shape == 'dict-of-lists':
        return {'t': 'dict', 'entries': [['p', L(tag + 'x')], ['q', L()]]}
    raise ValueError(shape)


def build_value(spec):
    if not isinstance(spec, dict):
        return spec
    t = spec['t']
    if t == 'list':
        return [build_value(v) for v in spec['items']]
    if t == 'dict':
        return {k: build_value(v) for k, v in spec['entries']}
    if t == 'tuple':
        return tuple(build_value(v) for v in spec['items'])
    if t == 'namedtuple':
        return _namedtuple()(*[build_value(v) for v in spec['items']])
    if t == 'array':
        return np.zeros(spec['n'])
    if t == 'uncopyable':   # objects copy.deepcopy cannot copy
        if spec['what'] == 'generator':
            return (i for i in range(3))
        if spec['what'] == 'dict_keys':
            return {'k': 1}.keys()
        import threading
        return threading.Lock()
    raise ValueError(t)


def spec_children(spec):
    t = spec['t']
    if t == 'dict':
        return [(k, v) for k, v in spec['entries']]
    if t == 'array':
        return [(str(i), 0) for i in range(spec['n'])]
    if t == 'uncopyable':
        return []
    return [(str(i), v) for i, v in enumerate(spec['items'])]


def spec_nodes(spec, path, key):
    """Model-side construction plan, outermost first: [{path, key, kind, imm}]; plus the paths (relative to the
    object) of the inner lists / dicts / arrays, for later in-place edits."""
    kind = {'list': 'list', 'dict': 'dict', 'tuple': 'tuple', 'namedtuple': 'tuple', 'array': 'array',
            'uncopyable': 'uncopyable'}[spec['t']]
    node = {'path': path, 'key': key, 'kind': kind, 'imm': []}
    nodes, inner = [node], {'list': [], 'dict': [], 'array': []}
    if kind in inner:
        inner[kind].append(path + [key])
    for k, v in spec_children(spec):
        if isinstance(v, dict):
            sub_nodes, sub_inner = spec_nodes(v, path + [key], k)
            nodes += sub_nodes
            for kk in inner:
                inner[kk] += sub_inner[kk]
        else:
            node['imm'].append([k, v])
    return nodes, inner


ASSIGN_INPLACE = {'attr': True, 'item': True, 'replace_values': True, 'view': True, 'astype': True, 'values': True,
                  'list': False, 'tolist-item': False}


def assign_from(dst, src_obj, x, fx, via):
    """Whole-variable assignment of dst's variable x from the OTHER object's variable fx, in every spelling."""
    src = src_obj.__dict__['_' + fx]      # the other side's array object itself
    if via == 'attr':
        setattr(dst, x, src)
    elif via == 'item':
        dst[x] = src
    elif via == 'replace_values':
        dst.replace_values(**{x: src})
    elif via == 'view':
        setattr(dst, x, src[:])
    elif via == 'astype':
        setattr(dst, x, src.astype('float32') if src.dtype.kind == 'f' else src.astype(src.dtype))
    elif via == 'list':
        setattr(dst, x, list(src))
    elif via == 'tolist-item':
        dst[x] = src.tolist()
    elif via == 'scalar':
        setattr(dst, x, src[0])
    else:
        raise ValueError(via)


def apply_op(m, op, world=None):
    o = op['o']
    if o == 'assignFrom':
        assign_from(m, world.roots[op['from']], op['x'], op['fx'], op['via'])
    elif o == 'assignValues':
        m.values = world.roots[op['from']].values
    elif o == 'dictDel':
        del navigate(m, op['f'])[op['k']]
    elif o == 'useName':
        try:   # a read through a name; a failed look-up is a use too
            if op['how'] == 'item':
                m[op['x']]
            elif op['how'] == 'attr':
                getattr(m, op['x'])
            else:
                op['x'] in m
        except Exception:   # noqa: BLE001
            pass
    elif o == 'buildAttr':
        m.add_attribute(op['x'], build_value(op['spec']))
    elif o == 'setAt':
        target = navigate(m, op['f'])
        if isinstance(target, dict):
            target[op['k']] = op['v']
        else:
            target[int(op['k'])] = op['v']
    elif o == 'setCell':
        m.__dict__['_' + op['x']][op['i']] = op['v']
    elif o == 'rebind':
        setattr(m, op['x'], [float(i) for i in range(op['n'])])
    elif o == 'addVariable':
        if op.get('dtype'):
            m.add_variable(op['x'], 0.0, dtype=DTYPES[op['dtype']])
        else:
            m.add_variable(op['x'], 0.0)
    elif o == 'addAttrImm':
        if op.get('via') == 'setattr':
            setattr(m, op['x'], op['v'])
        else:
            m.add_attribute(op['x'], op['v'])
    elif o == 'addAttrList':
        m.add_attribute(op['x'], list(op['items']))
    elif o == 'setAttrImm':
        if op['x'] == '_strict':
            m.strict = (op['v'] == {'tag': 'True'})
        else:
            setattr(m, op['x'], op['v'])
    elif o == 'append':
        navigate(m, op['f']).append(op['s'])
    elif o == 'popLast':
        navigate(m, op['f']).pop()
    elif o == 'dictSet':
        navigate(m, op['f'])[op['k']] = op['v']
    elif o == 'traceT':
        if op['src'] == 'user':
            m.trace_t(op['t'], op['label'], trace=list(op['items']))
        else:
            m.trace_t(op['t'], op['label'], trace=True)
    elif o == 'inSub':
        apply_op(m.submodels[op['key']], op['op'], world)
    else:
        raise ValueError(o)


COPY_ROUTES = {
    'method': lambda x: x.copy(),
    'copy.copy': copy.copy,
    'copy.deepcopy': copy.deepcopy,
}


class RealWorld:
    """Executes the same commands as lean/Driver/Heap.lean on real fsic objects."""

    def __init__(self, snap=True):
        self.classes = {}
        self.roots = {}
        self.snaps = []
        self.keep = []
        self.snap = snap
        self.failed_copies = []

    def exec(self, cmd):
        c = cmd['c']
        if c == 'class':
            pass   # the class object was registered by the generator (self.classes[name] = cls)
        elif c == 'new':
            cls = self.classes[cmd['cls']]
            span = range(cmd['span']['range']) if 'range' in cmd['span'] else list(cmd['span']['list'])
            kw = {'dtype': DTYPES[cmd['dtype']]} if cmd.get('dtype') and issubclass(cls, ModelInterface) else {}
            if 'sub' in cmd and cmd['sub'] is not None:
                self.roots[cmd['r']] = cls(self.roots[cmd['sub']], **kw)
            elif issubclass(cls, BaseLinker):
                self.roots[cmd['r']] = cls(**kw)
            else:
                self.roots[cmd['r']] = cls(span, **kw)
        elif c == 'dict':
            self.roots[cmd['r']] = {k: self.roots[r] for k, r in cmd['entries']}
        elif c == 'copy':
            self.roots[cmd['r']] = COPY_ROUTES[cmd.get('route', 'method')](self.roots[cmd['of']])
        elif c == 'copyfail':
            try:
                COPY_ROUTES[cmd.get('route', 'method')](self.roots[cmd['of']])
            except Exception as e:   # noqa: BLE001
                self.failed_copies.append(type(e).__name__)
            else:
                raise AssertionError('copy of an object with an uncopyable attribute did not raise')
        elif c == 'op':
            apply_op(self.classes[cmd['r']] if cmd['r'] in self.classes else self.roots[cmd['r']], cmd['op'], self)
        elif c == 'subadd':
            self.roots[cmd['r']].submodels[cmd['key']] = self.roots[cmd['of']]
        elif c == 'sub':
            self.roots[cmd['r']] = self.roots[cmd['of']].submodels[cmd['key']]
        elif c == 'snap':
            if not self.snap:
                return
            objs = [(r, self.classes[r] if r in self.classes else self.roots[r]) for r in cmd['roots']]
            self.snaps.append(snapshot(objs))
        else:
            raise ValueError(c)

    def run(self, prog):
        for cmd in prog:
            self.exec(cmd)
        return '#'.join(self.snaps)


def line(prog):
    """Request line for the model.  A command carrying `expand` (one real call that the model sees as several
    operations, e.g. `m.values = other.values`) is replaced by its expansion."""
    out = []
    for cmd in prog:
        out.extend(cmd['expand'] if 'expand' in cmd else [cmd])
    return 'heap_prog\t' + json.dumps({'prog': out}, separators=(',', ':'))


# ---- full observable state (oracle) -----------------------------------------------------------------------------------

def observe(x, depth=0):
    """Everything that can be observed through x, with object identities abstracted away (nested tuples of plain
    values).  Used by the twin-run oracle: equal before and after <=> nothing visible through x changed."""
    if depth > 12:
        return '<deep>'
    if isinstance(x, type):
        return ('class', x.__name__, tuple((k, observe(getattr(x, k), depth + 1)) for k in class_attr_names(x)),
                ('LAGS', getattr(x, 'LAGS', None) if not isinstance(getattr(x, 'LAGS', None), property) else None),
                ('LEADS', getattr(x, 'LEADS', None) if not isinstance(getattr(x, 'LEADS', None), property) else None))
    if isinstance(x, np.ndarray):
        if x.dtype == object:
            return ('objarray', x.shape, tuple(observe(v, depth + 1) for v in x.reshape(-1)))
        return ('array', str(x.dtype), x.shape, x.tobytes())
    if isinstance(x, (list, tuple)):
        return (type(x).__name__, tuple(observe(v, depth + 1) for v in x))
    if isinstance(x, dict):
        return ('dict', tuple(sorted((repr(k), observe(v, depth + 1)) for k, v in x.items())))
    if isinstance(x, (set, frozenset)):
        return ('set', tuple(sorted(repr(v) for v in x)))
    if isinstance(x, float):
        return ('float', np.float64(x).tobytes())
    if isinstance(x, np.generic):
        return ('npscalar', str(x.dtype), x.tobytes())
    if isinstance(x, (str, bytes, int, bool, type(None), complex, range)):
        return (type(x).__name__, repr(x))
    mod = type(x).__module__ or ''
    if mod.startswith('pandas'):
        return ('pandas', type(x).__name__, repr(list(x)) if hasattr(x, '__iter__') else repr(x))
    d = getattr(x, '__dict__', None)
    if isinstance(d, dict) and not isinstance(x, (types.FunctionType, type)):
        extra = ()
        if isinstance(x, VectorContainer):
            extra = (('LAGS', repr(getattr(x, 'LAGS', None))), ('LEADS', repr(getattr(x, 'LEADS', None))))
        return ('object', type(x).__name__, tuple(sorted((str(k), observe(v, depth + 1)) for k, v in d.items())), extra)
    return ('value', repr(x))


def diff_paths(a, b, path='', out=None, limit=6):
    """Paths at which two observations differ (for violation messages and violation keys)."""
    out = [] if out is None else out
    if len(out) >= limit or a == b:
        return out
    if isinstance(a, tuple) and isinstance(b, tuple) and len(a) == len(b) and \
            not (a and isinstance(a[0], str) and a[0] != b[0]):
        for i, (x, y) in enumerate(zip(a, b)):
            if x != y:
                label = str(x[0]) if isinstance(x, tuple) and len(x) == 2 and isinstance(x[0], str) else str(i)
                diff_paths(x, y, path + '/' + label, out, limit)
        return out
    out.append(path)
    return out
