"""Shared machinery of every property check: report collection, decision procedure (DESIGN §1/§3.2),
known findings, evidence and replay files."""
import collections, hashlib, json, os, random, sys, time, traceback

VERIF = os.path.dirname(os.path.dirname(os.path.abspath(__file__)))
REPO = os.environ.get('FSIC_REPO', '/repo')
if REPO not in sys.path:
    sys.path.insert(0, REPO)
os.environ.setdefault('PYTHONDONTWRITEBYTECODE', '1')
sys.dont_write_bytecode = True

import lean_bridge  # noqa: E402


class Report:
    """What one run covered and found."""

    def __init__(self):
        self.evaluations = 0
        self.nontrivial = set()
        self.samples = []
        self.disagreements = []   # T: model != implementation
        self.violations = []      # S: property fails on the real code
        self.dist = collections.Counter()
        self.notes = []
        self.exhaustive = False

    def case(self, key=None, nontrivial=True, sample=None, n=1):
        self.evaluations += n
        if nontrivial and key is not None:
            self.nontrivial.add(hashlib.blake2b(repr(key).encode(), digest_size=8).digest())
        if sample is not None and len(self.samples) < 6:
            self.samples.append(sample)

    def disagree(self, what, case, model, impl):
        if len(self.disagreements) < 200:
            self.disagreements.append({'correspondence': what, 'case': case, 'model': model, 'impl': impl})
        self.dist['disagreement:' + what] += 1

    def violate(self, key, what, case):
        """`key` names the specific failing input class (matched against known_findings.json)."""
        # cap per key, so that a high-volume known finding cannot crowd out a different (new) violation
        if self.dist['violation:' + key] < 25 and len(self.violations) < 3000:
            self.violations.append({'key': key, 'what': what, 'case': case})
        self.dist['violation:' + key] += 1

    def merge(self, other):
        self.evaluations += other.evaluations
        self.nontrivial |= other.nontrivial
        for s in other.samples:
            if len(self.samples) < 6:
                self.samples.append(s)
        self.disagreements += other.disagreements
        self.violations += other.violations
        self.dist.update(other.dist)
        self.notes += other.notes


class Ctx:
    def __init__(self, prop, tier, seed):
        self.prop = prop
        self.tier = tier
        self.seed = seed
        self.rng = random.Random(f'{prop}:{seed}')
        self.scale = 1            # multiplied by 4 for the extended failing-input search
        self.oracle_only = False  # extended search: no model comparison needed
        self.workers = min(16, os.cpu_count() or 1)

    def drive(self, lines):
        return lean_bridge.drive(lines)

    part, parts = 0, 1

    def sub_rng(self, *tag):
        return random.Random(f'{self.prop}:{self.seed}:{self.part}/{self.parts}:' + ':'.join(map(str, tag)))


def _par_worker(args):
    func, prop, tier, seed, scale, oracle_only, i, n = args
    ctx = Ctx(prop, tier, seed)
    ctx.scale, ctx.oracle_only = scale, oracle_only
    ctx.part, ctx.parts = i, n
    ctx.rng = random.Random(f'{prop}:{seed}:part{i}')
    rep = Report()
    func(ctx, rep)
    return rep


def parallel(func, ctx, rep, parts=None):
    """Run `func(ctx_i, rep_i)` in `parts` forked worker processes (each with `ctx_i.part`, `ctx_i.parts` and its own
    PRNG stream `sub_rng` seeded by part) and merge the reports.  `func` must be a module-level function."""
    import multiprocessing as mp
    parts = parts or ctx.workers
    if parts <= 1:
        ctx.part, ctx.parts = 0, 1
        func(ctx, rep)
        return
    with mp.get_context('fork').Pool(parts) as pool:
        for r in pool.imap_unordered(_par_worker, [(func, ctx.prop, ctx.tier, ctx.seed, ctx.scale, ctx.oracle_only, i, parts)
                                                   for i in range(parts)]):
            rep.merge(r)


def load_known():
    path = os.path.join(VERIF, 'known_findings.json')
    if not os.path.exists(path):
        return []
    return json.load(open(path))['findings']


def write_json(path, obj):
    os.makedirs(os.path.dirname(path), exist_ok=True)
    tmp = path + '.tmp%d' % os.getpid()
    with open(tmp, 'w') as f:
        json.dump(obj, f, indent=1, default=str)
    os.replace(tmp, path)


def jsonable(x):
    try:
        json.dumps(x)
        return x
    except TypeError:
        return repr(x)


def run_check(mod, tier, seed):
    """Full decision procedure for one property.  Returns the process exit code."""
    t0 = time.time()
    pid = mod.ID
    ctx = Ctx(pid, tier, seed)
    lines_out = []

    # ---- (P) proof obligations -------------------------------------------------------------
    p_problems = []
    try:
        import reflect
        reflect.regenerate()
    except Exception as e:  # reflection failure = the tables the theorems depend on can no longer be read
        p_problems.append('reflect: ' + ''.join(traceback.format_exception_only(type(e), e)).strip())
    ok, log, build_s = lean_bridge.build([mod.LEAN_MODULE, 'fsicdrv'])
    okp = ok
    if not ok:
        # distinguish proof/model breakage from the driver failing to link
        okp, logp, _ = lean_bridge.build([mod.LEAN_MODULE])
        p_problems.append('lake build failed: ' + _first_error(logp if not okp else log))
    axioms = {}
    if ok or okp:
        axioms, alog = lean_bridge.audit(mod.LEAN_MODULE, mod.THEOREMS)
        for th, ax in axioms.items():
            if ax is None:
                p_problems.append(f'theorem {th} missing or not checked')
            else:
                bad = [a for a in ax if a not in lean_bridge.ALLOWED_AXIOMS]
                if bad:
                    p_problems.append(f'theorem {th} depends on non-standard axioms {bad}')
    for path, tok in lean_bridge.forbidden_tokens():
        p_problems.append(f'forbidden token {tok!r} in {path}')
    discharged = sum(1 for th in mod.THEOREMS if axioms.get(th) is not None
                     and all(a in lean_bridge.ALLOWED_AXIOMS for a in axioms[th])) if not any(
                         x.startswith(('lake build', 'forbidden')) for x in p_problems) else 0
    checker = f'cd lean && lake build {mod.LEAN_MODULE} && #print axioms (x{len(mod.THEOREMS)})'
    if tier == 'thorough' and not p_problems:
        okc, logc = lean_bridge.leanchecker(getattr(mod, 'LEANCHECK_MODULES', [mod.LEAN_MODULE]))
        checker += ' && lake env leanchecker ' + ' '.join(getattr(mod, 'LEANCHECK_MODULES', [mod.LEAN_MODULE]))
        if not okc:
            p_problems.append('leanchecker rejected: ' + logc[-500:])

    # ---- (T)+(S) correspondence and oracle ---------------------------------------------------
    rep = Report()
    infra = None
    crashed = None
    if not ok:
        ctx.oracle_only = True  # no driver: correspondence cannot run; oracle still can
    try:
        _run_corpus(mod, ctx, rep)
        mod.run(ctx, rep)
    except lean_bridge.subprocess.TimeoutExpired as e:
        infra = f'timeout: {e}'
    except Exception as e:
        tb = ''.join(traceback.format_exception(type(e), e, e.__traceback__))[-3000:]
        if _is_infrastructure(e):
            infra = 'harness error: ' + tb
        else:
            crashed = tb

    known = [k for k in load_known() if k['property'] == pid and k.get('status') == 'open']
    known_keys = {k['key']: k for k in known}
    new_viol = [v for v in rep.violations if v['key'] not in known_keys]
    known_hit = collections.OrderedDict()
    for v in rep.violations:
        if v['key'] in known_keys:
            known_hit.setdefault(v['key'], v)

    if infra and new_viol and not infra.startswith('timeout'):
        # the harness itself fell over AFTER the real code had already violated the property on some input (typically it
        # could not digest a malformed object the changed code handed back): the violations found stand
        rep.notes.append('harness stopped early: ' + infra[-600:])
        infra = None
    if crashed and new_viol:
        rep.notes.append('harness stopped early: ' + crashed[-600:])
    elif crashed:
        # No build tool, driver process or OS call failed: the harness could not digest what the code under test handed
        # back (a value of a shape the reference tree never produces).  The correspondence stream that fell over "no longer
        # checks" (brief: a broken correspondence) -- recorded as such, then the extended search looks for a failing input.
        rep.disagree('harness-exception', {'traceback': crashed[-1500:]}, 'stream completes (as on the reference tree)',
                     'exception while comparing / judging the implementation')
    status = 0
    replay_path = None
    if infra:
        print(f'INFRA property={pid} {infra}', flush=True)
        status = 2
    elif new_viol:
        replay_path = _write_replay(pid, {'kind': 'failing-input', 'violations': new_viol[:20]})
        print(f'VIOLATION property={pid} replay={replay_path}', flush=True)
        status = 1
    elif p_problems or rep.disagreements:
        # P or T broke: search harder for a failing input on the real code (DESIGN §3.2)
        ctx2 = Ctx(pid, tier, seed)
        ctx2.scale = 4
        ctx2.oracle_only = True
        rep2 = Report()
        try:
            if hasattr(mod, 'search'):
                mod.search(ctx2, rep2, rep.disagreements)
            else:
                mod.run(ctx2, rep2)
        except Exception as e:
            rep2.notes.append('extended search crashed: ' + repr(e))
        found = [v for v in rep2.violations if v['key'] not in known_keys]
        broken = {'proof_obligations': p_problems, 'correspondence': rep.disagreements[:10]}
        if found:
            replay_path = _write_replay(pid, {'kind': 'failing-input', 'violations': found[:20], 'broken': broken})
            print(f'VIOLATION property={pid} replay={replay_path}', flush=True)
        else:
            replay_path = _write_replay(pid, {'kind': 'no-failing-input-found', 'broken': broken,
                                              'searched': rep2.evaluations})
            print(f'VIOLATION property={pid} replay={replay_path} no-failing-input-found', flush=True)
        status = 1
    for key, v in known_hit.items():
        print(f'KNOWN-FINDING: property={pid} {known_keys[key]["what"]} [key={key}]', flush=True)

    # ---- evidence ------------------------------------------------------------------------------
    trusted = ['Lean 4.33.0 kernel', 'axioms ⊆ {propext, Classical.choice, Quot.sound} (audited per theorem below)',
               'harness/ correspondence check (Python) and reflect.py'] + list(getattr(mod, 'TRUSTED', []))
    if tier == 'thorough':
        trusted.append('leanchecker re-check of compiled .olean files')
    cov = {
        'obligations': len(mod.THEOREMS),
        'discharged': discharged,
        'checker_cmd': checker,
        'trusted_base': trusted,
        'theorem_axioms': {k: v for k, v in axioms.items()},
        'proof_problems': p_problems,
        'evaluations': rep.evaluations,
        'distinct_nontrivial': len(rep.nontrivial),
        'rule': mod.RULE,
        'samples': [jsonable(s) for s in rep.samples] or ['<no case run>'],
        'distribution': dict(rep.dist),
        'correspondence_disagreements': len(rep.disagreements),
        'known_findings_reproduced': list(known_hit.keys()),
        'exhaustive': bool(rep.exhaustive),
        'notes': rep.notes[:20],
        'build_s': round(build_s, 2),
    }
    ev = {
        'property_id': pid, 'tier': tier, 'seed': seed, 'level': 'proof', 'coverage': cov,
        'assumptions': list(getattr(mod, 'ASSUMPTIONS', [])),
        'wall_s': round(time.time() - t0, 2), 'violations': len(new_viol) if status == 1 else 0,
    }
    if status == 1 and not new_viol:
        ev['violations'] = 1
    write_json(os.path.join(VERIF, 'evidence', f'{pid}.json'), ev)
    print(f'{pid} {tier} seed={seed}: theorems {discharged}/{len(mod.THEOREMS)}, cases {rep.evaluations} '
          f'({len(rep.nontrivial)} distinct non-trivial), disagreements {len(rep.disagreements)}, '
          f'violations {len(new_viol)}, known {len(known_hit)}, {ev["wall_s"]}s -> exit {status}', flush=True)
    return status


def report_overrun(mod, tier, seed, deadline, t0):
    """The supervised check did not finish within its wall-clock deadline (harness/vcheck.py): nothing it had found
    can be read back, so the run is reported as a correspondence that no longer checks, with no failing input."""
    pid = mod.ID
    broken = {'proof_obligations': [],
              'correspondence': [{'correspondence': 'check-did-not-finish',
                                  'case': {'deadline_s': deadline, 'tier': tier, 'seed': seed},
                                  'model': 'the check completes (about 0.5-2 min quick, up to ~40 min thorough on the '
                                           'reference tree)',
                                  'impl': f'still running after {deadline:.0f}s: some call into the code under test '
                                          'does not return'}]}
    replay_path = _write_replay(pid, {'kind': 'no-failing-input-found', 'broken': broken, 'searched': 0})
    print(f'VIOLATION property={pid} replay={replay_path} no-failing-input-found', flush=True)
    # level 'other': no proof obligation was recorded as discharged by this run, so it does not claim the proof level
    ev = {'property_id': pid, 'tier': tier, 'seed': seed, 'level': 'other',
          'coverage': {'obligations': len(mod.THEOREMS), 'discharged': 0,
                       'checker_cmd': f'cd lean && lake build {mod.LEAN_MODULE} (run killed at the deadline before the audit '
                                      'could be recorded)',
                       'trusted_base': ['Lean 4.33.0 kernel', 'harness/ correspondence check (Python) and reflect.py'],
                       'evaluations': 0, 'distinct_nontrivial': 0, 'rule': mod.RULE,
                       'samples': ['<run killed at its wall-clock deadline; no case could be read back>'],
                       'explanation': f'check did not finish within {deadline:.0f}s', 'exhaustive': False},
          'assumptions': list(getattr(mod, 'ASSUMPTIONS', [])), 'wall_s': round(time.time() - t0, 2), 'violations': 1}
    write_json(os.path.join(VERIF, 'evidence', f'{pid}.json'), ev)
    print(f'{pid} {tier} seed={seed}: killed at the {deadline:.0f}s deadline -> exit 1', flush=True)
    return 1


def _is_infrastructure(e):
    """Failures of the machinery itself (build tools, the driver process, the OS, memory, imports) as opposed to the
    harness meeting an implementation answer it cannot interpret."""
    import subprocess
    if isinstance(e, (OSError, MemoryError, ImportError, subprocess.SubprocessError, EOFError)):
        return True
    if isinstance(e, RuntimeError) and str(e).startswith('driver '):
        return True
    name = type(e).__name__
    if name in ('BrokenProcessPool', 'PicklingError', 'UnpicklingError', 'RecursionError'):
        return True
    # the same failures re-raised by a worker pool arrive wrapped (RemoteTraceback text, RuntimeError('worker crashed …'))
    text = ''.join(traceback.format_exception(type(e), e, e.__traceback__))
    return any(tok in text for tok in ('fsicdrv', 'lean_bridge.py", line', 'driver exited', 'driver returned',
                                       'MemoryError', 'BrokenProcessPool', 'Errno', 'TimeoutExpired'))


def _run_corpus(mod, ctx, rep):
    """Minimised past failures (corpus/<ID>/*.json: inputs on which some earlier or seeded version of the code broke
    the property) are replayed through the oracle before anything else."""
    import contextlib, glob, io
    n = 0
    for path in sorted(glob.glob(os.path.join(VERIF, 'corpus', mod.ID, '*.json'))):
        try:
            data = json.load(open(path))
            import copy
            with contextlib.redirect_stdout(io.StringIO()):
                mod.replay(copy.copy(ctx), rep, data['case'])   # a replay must not be able to alter the run's ctx
            n += 1
        except Exception as e:  # noqa: BLE001
            rep.notes.append(f'corpus case {os.path.basename(path)} could not be replayed: {e!r}')
    if n:
        rep.dist['corpus_cases_replayed'] = n
        rep.evaluations += n


def _first_error(log):
    lines = [l for l in log.splitlines() if 'error' in l.lower()]
    return ' / '.join(lines[:4])[:1000] if lines else log[-600:]


def _write_replay(pid, payload):
    rel = os.path.join('replays', f'{pid}-{int(time.time())}-{os.getpid()}.json')
    payload['property'] = pid
    write_json(os.path.join(VERIF, rel), payload)
    return rel


def run_replay(mod, path):
    data = json.load(open(path if os.path.isabs(path) else os.path.join(VERIF, path)))
    ctx = Ctx(mod.ID, 'quick', 0)
    if data.get('kind') == 'no-failing-input-found':
        print('replay: no failing input was found; broken obligations / correspondence:')
        print(json.dumps(data.get('broken'), indent=1)[:4000])
        return 1
    bad = 0
    for v in data.get('violations', []):
        rep = Report()
        mod.replay(ctx, rep, v['case'])
        ok = not rep.violations
        print(('holds   ' if ok else 'FAILS   ') + v['key'] + ' :: ' + v['what'][:200])
        bad += 0 if ok else 1
    return 1 if bad else 0
