"""Process-global state that parsing and building must leave alone (C13: "no effect outside the returned
objects").  `snapshot()` returns a flat dict of comparable values; `diff(a, b)` names the keys that differ.
Everything is generic: nothing here knows what the parser does, only where a Python library can leave traces."""
import builtins, decimal, linecache, locale, os, random, sys, tempfile, types, warnings

import numpy as np

_CONTAINERS = (dict, list, set, bytearray, frozenset, tuple)


def _freeze(v, depth=0):
    """Comparable, cheap rendering of a module-level value (containers by content, everything else by identity)."""
    if isinstance(v, (str, bytes, int, float, bool, type(None))):
        return v
    if depth > 3:
        return id(v)
    if isinstance(v, dict):
        return ('dict', tuple((_freeze(k, depth + 1), _freeze(x, depth + 1)) for k, x in v.items()))
    if isinstance(v, (list, tuple)):
        return (type(v).__name__, tuple(_freeze(x, depth + 1) for x in v))
    if isinstance(v, (set, frozenset)):
        return ('set', tuple(sorted(repr(x) for x in v)))
    if isinstance(v, bytearray):
        return bytes(v)
    return id(v)


IGNORE_NAMES = ('self', 'CANARY')   # the harness's own sentinels in fsic.parser's globals


def _module_state(mod, out, prefix):
    """Module-level names; contents of module-level containers; caches hanging off functions and classes
    (lru_cache statistics, mutable default arguments, function attributes, class-level containers)."""
    d = vars(mod)
    out[prefix + ':names'] = frozenset(d)
    for name, v in list(d.items()):
        if (name.startswith('__') and name != '__warningregistry__') or name in IGNORE_NAMES:
            continue
        if isinstance(v, types.ModuleType):
            continue
        if isinstance(v, _CONTAINERS):
            out[f'{prefix}.{name}'] = _freeze(v)
        elif isinstance(v, types.FunctionType) and v.__module__ == mod.__name__:
            if v.__defaults__ or v.__kwdefaults__ or v.__dict__:
                out[f'{prefix}.{name}()'] = (_freeze(v.__defaults__), _freeze(v.__kwdefaults__), _freeze(v.__dict__))
        elif getattr(type(v), 'cache_info', None) is not None:
            try:
                out[f'{prefix}.{name}.cache_info'] = tuple(v.cache_info())
            except Exception:  # noqa: BLE001
                pass
        elif isinstance(v, type) and getattr(v, '__module__', None) == mod.__name__:
            cd = vars(v)
            out[f'{prefix}.{name}:attrs'] = frozenset(cd)
            for an, av in cd.items():
                if not an.startswith('__') and isinstance(av, (dict, list, set, bytearray)):
                    out[f'{prefix}.{name}.{an}'] = _freeze(av)


def quick_snapshot(mod):
    """The cheap subset taken around EVERY call (the full snapshot is taken around every batch and around every
    call of the smaller streams): the places a parser is most likely to touch."""
    d = vars(mod)
    return (tuple(warnings.filters), id(warnings.showwarning), len(sys.path), len(sys.modules), len(os.environ),
            id(sys.stdout), id(sys.stderr), len(vars(builtins)), len(d),
            tuple(len(v) for v in d.values() if type(v) in (dict, list, set)))


QUICK_KEYS = ('warnings.filters', 'warnings.showwarning', 'sys.path', 'sys.modules', 'os.environ', 'sys.stdout',
              'sys.stderr', 'builtins', 'module names', 'module-level containers')


def snapshot(modules=(), sandbox=None):
    s = {}
    s['warnings.filters'] = tuple(warnings.filters)
    s['warnings.showwarning'] = id(warnings.showwarning)
    s['warnings.formatwarning'] = id(warnings.formatwarning)
    s['warnings.defaultaction'] = getattr(warnings, 'defaultaction', None)
    s['numpy.geterr'] = tuple(sorted(np.geterr().items()))
    s['numpy.printoptions.precision'] = np.get_printoptions().get('precision')
    s['sys.path'] = tuple(sys.path)
    s['sys.modules'] = frozenset(sys.modules)
    s['sys.std*'] = (id(sys.stdin), id(sys.stdout), id(sys.stderr), id(sys.__stdout__), id(sys.__stderr__))
    s['sys.hooks'] = (id(sys.excepthook), id(sys.displayhook), id(sys.gettrace()), id(sys.getprofile()))
    s['sys.recursionlimit'] = sys.getrecursionlimit()
    s['sys.flags'] = (sys.dont_write_bytecode, sys.getswitchinterval())
    s['os.getcwd'] = os.getcwd()
    s['os.environ'] = tuple(sorted(os.environ.items()))
    s['os.umask'] = None
    s['locale'] = locale.getlocale()
    ctx = decimal.getcontext()
    s['decimal.context'] = (ctx.prec, ctx.rounding, ctx.Emin, ctx.Emax)
    s['random.state'] = hash(random.getstate())
    st = np.random.get_state()
    s['numpy.random.state'] = (st[0], hash(st[1].tobytes()), st[2], st[3], st[4])
    s['linecache.cache'] = frozenset(linecache.cache)
    s['builtins'] = frozenset(vars(builtins))
    s['builtins.ids'] = (id(builtins.print), id(builtins.open), id(builtins.compile), id(builtins.exec),
                         id(builtins.__import__))
    try:
        s['open fds'] = len(os.listdir('/proc/self/fd'))
    except OSError:
        s['open fds'] = None
    s['tempfile.tempdir'] = tempfile.tempdir
    if sandbox:
        s['files in cwd/tempdir'] = tuple(sorted(os.path.join(r, f)[len(sandbox):] for r, ds, fs in os.walk(sandbox)
                                                for f in fs + ds))
    for m in modules:
        _module_state(m, s, m.__name__)
    return s


def diff(a, b):
    return [k for k in a.keys() | b.keys() if a.get(k, '<absent>') != b.get(k, '<absent>')]


def describe(key, a, b):
    x, y = a.get(key), b.get(key)
    if isinstance(x, frozenset) and isinstance(y, frozenset):
        return f'+{sorted(map(str, y - x))[:4]} -{sorted(map(str, x - y))[:4]}'
    if key == 'warnings.filters':
        return f'{len(x)} -> {len(y)} filters; new: {[f[:1] + f[2:3] for f in y if f not in x][:3]}'
    return f'{str(x)[:80]} -> {str(y)[:80]}'
